"""Other substrates: Miri targets (checked memory, seeded scheduler, weak
memory emulation, NEON / 32-bit / big-endian code) and the other native build
flavours (no debug assertions, compile-time +avx2)."""
import json
import os
import subprocess
import time

import driver as D

TARGETS = {
    "x86_64": "x86_64-unknown-linux-gnu",
    "aarch64": "aarch64-unknown-linux-gnu",
    "i686": "i686-unknown-linux-gnu",
    "s390x": "s390x-unknown-linux-gnu",
}
MIRI_DIR = os.path.join(D.BUILD, "miri")


def miri_env(target, miri_seed=0, extra_flags="", rustflags_extra=""):
    env = dict(D.ENV_BASE)
    env["MIRI_SYSROOT"] = os.path.join(MIRI_DIR, "sysroot-" + target)
    env["CARGO_TARGET_DIR"] = os.path.join(MIRI_DIR, "target" + ("-avx2" if "avx2" in rustflags_extra else ""))
    env["RUSTFLAGS"] = ("--cfg memchr_verif " + rustflags_extra).strip()
    env["MIRIFLAGS"] = ("-Zmiri-disable-isolation -Zmiri-ignore-leaks -Zmiri-seed=%d %s" % (miri_seed, extra_flags)).strip()
    return env


def miri_cmd(target, args):
    return ["cargo", "+nightly", "miri", "run", "--offline", "--no-default-features", "--target", TARGETS[target],
            "--"] + args


_ready = set()


def ensure(target, rustflags_extra=""):
    """Sysroot + build of memsim for a Miri target (offline)."""
    key = (target, rustflags_extra)
    if key in _ready:
        return
    D.gen_shadow()
    os.makedirs(MIRI_DIR, exist_ok=True)
    sysroot = os.path.join(MIRI_DIR, "sysroot-" + target)
    env = miri_env(target, rustflags_extra=rustflags_extra)
    if not os.path.isdir(os.path.join(sysroot, "lib")):
        t0 = time.time()
        env2 = dict(D.ENV_BASE)
        env2["MIRI_SYSROOT"] = sysroot
        r = subprocess.run(["cargo", "+nightly", "miri", "setup", "--offline", "--target", TARGETS[target]],
                           cwd=D.SIM, env=env2, capture_output=True, text=True)
        if r.returncode != 0:
            raise D.HarnessError("cargo miri setup for %s failed:\n%s" % (target, r.stderr[-3000:]))
        D.log("[miri] sysroot for %s built in %.0fs" % (target, time.time() - t0))
    t0 = time.time()
    r = subprocess.run(miri_cmd(target, ["info"]), cwd=D.SIM, env=env, capture_output=True, text=True)
    if r.returncode != 0:
        raise D.HarnessError("memsim does not build/run under Miri for %s:\n%s" % (target, r.stderr[-4000:]))
    D.log("[miri] memsim for %s%s ready in %.0fs" % (target, " +avx2" if rustflags_extra else "", time.time() - t0))
    _ready.add(key)


def setup():
    for t in TARGETS:
        ensure(t)
    ensure("x86_64", "-Ctarget-feature=+avx2")


UB_MARKERS = ("Undefined Behavior", "Data race detected", "unsupported operation", "error: abnormal termination",
              "the evaluated program")


def classify(stderr):
    """Maps a Miri diagnostic to the property that owns it (or None)."""
    s = stderr
    if "Data race detected" in s:
        return "C15", "data race"
    mem = ("out-of-bounds", "dangling", "has been freed", "use-after-free", "memory access failed", "alignment",
           "not aligned", "in-bounds pointer arithmetic failed", "uninitialized")
    if any(m in s for m in mem):
        if "has been freed" in s or "use-after-free" in s or "dangling" in s:
            return "C05/C16", "use of freed memory"
        return "C05", "memory access / alignment"
    if "Undefined Behavior" in s:
        return "C14", "undefined behaviour"
    return None, "interpreter error"


def run_miri(prop, target, seed, first, count, procs, per_proc, miri_seed_base=0, extra_flags="", portable=False,
             rustflags_extra="", timeout=1500, want_hashes=False):
    """Runs `count` families under Miri in `procs`-way parallel processes of
    `per_proc` families each. Returns a dict with stats / violation."""
    ensure(target, rustflags_extra)
    os.makedirs(D.SCRATCH, exist_ok=True)
    jobs = []
    i = first
    k = 0
    while i < first + count:
        j = min(first + count, i + per_proc)
        jobs.append((i, j, miri_seed_base + k))
        i = j
        k += 1
    jobs.reverse()
    running = {}
    out = {"families": 0, "executions": 0, "ops": 0, "stats": {}, "hashes": {}, "violation": None, "procs": 0,
           "samples": [], "wall": 0.0}
    t0 = time.time()
    stop = False
    files = []
    while (jobs and not stop) or running:
        while jobs and not stop and len(running) < procs:
            lo, hi, ms = jobs.pop()
            # fixed-width name: the interpreted program walks over its argument
            # strings, so their length is part of what the interpreter's seeded
            # scheduler sees; a replay must present strings of the same length
            of = os.path.join(D.SCRATCH, "miri-%010d-%08d.json" % (os.getpid(), lo))
            args = ["run", "--prop", prop, "--seed", str(seed), "--from", str(lo), "--to", str(hi), "--out", of]
            if portable:
                args.append("--portable")
            if want_hashes:
                args.append("--hashes")
            env = miri_env(target, ms, extra_flags, rustflags_extra)
            p = subprocess.Popen(miri_cmd(target, args), cwd=D.SIM, env=env, stdout=subprocess.DEVNULL,
                                 stderr=subprocess.PIPE)
            running[p.pid] = (p, lo, hi, ms, of, time.time())
            files.append(of)
        time.sleep(0.05)
        for pid in list(running):
            p, lo, hi, ms, of, started = running[pid]
            rc = p.poll()
            if rc is None:
                if time.time() - started > timeout:
                    p.kill()
                    p.wait()
                    del running[pid]
                    raise D.HarnessError("Miri worker %s %d..%d exceeded %ds" % (target, lo, hi, timeout))
                continue
            err = p.stderr.read().decode("utf-8", "replace")
            del running[pid]
            out["procs"] += 1
            rep = None
            try:
                with open(of) as f:
                    rep = json.load(f)
            except Exception:
                rep = None
            if rep is not None and rc in (0, 1):
                D.merge_stats(out["stats"], rep["stats"])
                out["families"] += rep["families"]
                out["executions"] += rep["executions"]
                if len(out["samples"]) < 2:
                    out["samples"].extend(rep["samples"][:1])
                for idx, h in rep.get("log_hashes", []):
                    out["hashes"][idx] = h
                if rc == 1 and rep.get("violation"):
                    v = rep["violation"]
                    out["violation"] = {"how": "report", "family": v["index"], "violations": v["violations"],
                                        "replay": v["family"], "target": target, "miri_seed": ms,
                                        "extra_flags": extra_flags, "rustflags_extra": rustflags_extra,
                                        "portable": portable, "lo": lo, "hi": hi}
                    stop = True
                continue
            # the interpreter aborted
            fams = [l for l in err.splitlines() if l.startswith("FAMILY ")]
            fam = int(fams[-1].split()[1]) if fams else lo
            owner, what = classify(err)
            diag = "\n".join(l for l in err.splitlines() if "error" in l.lower() or "Undefined" in l)[:1500]
            if owner is None and not any(m in err for m in UB_MARKERS):
                raise D.HarnessError("Miri worker %s %d..%d failed (exit %s):\n%s" % (target, lo, hi, rc, err[-3000:]))
            out["violation"] = {"how": "miri", "family": fam, "owner": owner, "what": what, "diag": diag,
                                "target": target, "miri_seed": ms, "extra_flags": extra_flags,
                                "rustflags_extra": rustflags_extra, "portable": portable, "lo": lo, "hi": hi}
            stop = True
    for pid in list(running):
        running[pid][0].kill()
    for of in files:
        for suf in ("", ".sigs", ".trap", ".progress"):
            try:
                os.remove(of + suf)
            except OSError:
                pass
    out["wall"] = time.time() - t0
    out["ops"] = out["stats"].get("ops", 0)
    return out


def miri_replay_file(prop, seed, v):
    """Writes a replay file that records the substrate it needs."""
    os.makedirs(D.REPLAYS, exist_ok=True)
    path = os.path.join(D.REPLAYS, "%s-seed%d-family%s.miri-%s.json" % (prop, seed, v["family"], v["target"]))
    if v["how"] == "report":
        fam = v["replay"]
    else:
        args = ["gen", "--prop", prop, "--seed", str(seed), "--index", str(v["family"])]
        if v.get("portable"):
            args.append("--portable")
        env = miri_env(v["target"], v["miri_seed"], v["extra_flags"], v["rustflags_extra"])
        r = subprocess.run(miri_cmd(v["target"], args), cwd=D.SIM, env=env, capture_output=True, text=True)
        if r.returncode != 0:
            raise D.HarnessError("memsim gen under Miri failed: " + r.stderr[-2000:])
        fam = json.loads(r.stdout.strip().splitlines()[-1])
    fam["substrate"] = {"miri_target": v["target"], "miri_seed": v["miri_seed"], "extra_flags": v["extra_flags"],
                        "rustflags_extra": v["rustflags_extra"], "portable": bool(v.get("portable"))}
    with open(path, "w") as f:
        json.dump(fam, f)
    return path


def replay_under_miri(path, sub):
    """Returns (violated: bool, text)."""
    target = sub["miri_target"]
    ensure(target, sub.get("rustflags_extra", ""))
    env = miri_env(target, sub.get("miri_seed", 0), sub.get("extra_flags", ""), sub.get("rustflags_extra", ""))
    rng = sub.get("miri_range")
    if rng:
        # the whole interpreter process again: same families, same interpreter
        # seed, hence the same schedule and the same state carried from one
        # family to the next
        os.makedirs(D.SCRATCH, exist_ok=True)
        of = os.path.join(D.SCRATCH, "miri-%010d-%08d.json" % (os.getpid(), rng["lo"]))
        args = ["run", "--prop", rng["prop"], "--seed", str(rng["seed"]), "--from", str(rng["lo"]), "--to",
                str(rng["hi"]), "--out", of]
        if sub.get("portable"):
            args.append("--portable")
        r = subprocess.run(miri_cmd(target, args), cwd=D.SIM, env=env, capture_output=True, text=True, timeout=3000)
        if r.returncode == 0:
            return False, "clean"
        try:
            with open(of) as f:
                rep = json.load(f)
            os.unlink(of)
            if rep.get("violation"):
                v = rep["violation"]["violations"][0][1]
                return True, ("%s: %s  [family %s, only when families %d..%d run in one interpreter process with this "
                              "interpreter seed: the answer depends on the schedule and on what the earlier families "
                              "left behind]" % (v["kind"], v["what"], rep["violation"]["index"], rng["lo"], rng["hi"] - 1))
        except Exception:
            pass
    else:
        args = ["replay", path]
        if sub.get("portable"):
            args.append("--portable")
        r = subprocess.run(miri_cmd(target, args), cwd=D.SIM, env=env, capture_output=True, text=True, timeout=3000)
        if r.returncode == 0:
            return False, "clean"
        try:
            parsed = json.loads(r.stdout.strip().splitlines()[-1])
            if parsed.get("violations"):
                v = parsed["violations"][0][1]
                return True, "%s: %s" % (v["kind"], v["what"])
        except Exception:
            pass
    owner, what = classify(r.stderr)
    if owner or any(m in r.stderr for m in UB_MARKERS):
        diag = " | ".join(l.strip() for l in r.stderr.splitlines() if l.startswith("error"))[:600]
        return True, "Miri (%s): %s" % (what, diag)
    raise D.HarnessError("replay under Miri failed without a diagnostic:\n" + r.stderr[-3000:])


def report_miri_violation(prop, seed, v):
    """Confirms by replaying in a fresh interpreter; returns dict or None
    (None: it belongs to another property / did not reproduce)."""
    owners = (v.get("owner") or prop).split("/")
    if v["how"] == "miri" and prop not in owners:
        D.log("note: Miri diagnostic owned by %s while checking %s (not reported here): %s"
              % (v.get("owner"), prop, v.get("diag", "")[:300]))
        return None
    path = miri_replay_file(prop, seed, v)
    with open(path) as f:
        sub = json.load(f)["substrate"]
    bad, text = replay_under_miri(path, sub)
    if not bad and "lo" in v:
        # not a property of that family alone: replay the interpreter process
        with open(path) as f:
            fam = json.load(f)
        fam["substrate"]["miri_range"] = {"prop": prop, "seed": seed, "lo": v["lo"], "hi": v["hi"]}
        with open(path, "w") as f:
            json.dump(fam, f)
        bad, text = replay_under_miri(path, fam["substrate"])
    if not bad:
        raise D.HarnessError("Miri violation in family %s (%s) did not reproduce from %s" % (v["family"], v["target"], path))
    return {"replay": path, "text": "[miri %s seed %d] %s" % (v["target"], v["miri_seed"], text)}


# ---------------------------------------------------------------------------
# what each property runs besides the native dbg flavour

#          prop: [(target, quick families, thorough families, rustflags_extra, extra miri flags)]
MIRI_PLAN = {
    "C05": [("x86_64", 128, 3200, "", ""), ("aarch64", 128, 3200, "", ""),
            ("x86_64", 48, 1600, "-Ctarget-feature=+avx2", ""), ("i686", 0, 1200, "", ""), ("s390x", 0, 1200, "", "")],
    "C06": [("aarch64", 96, 1600, "", ""), ("s390x", 96, 1600, "", ""), ("i686", 0, 800, "", "")],
    "C07": [("aarch64", 96, 1600, "", ""), ("s390x", 48, 800, "", ""),
            ("x86_64", 0, 800, "-Ctarget-feature=+avx2", "")],
    "C08": [("aarch64", 48, 1200, "", ""), ("s390x", 32, 800, "", "")],
    "C10": [("aarch64", 32, 800, "", ""), ("i686", 0, 400, "", "")],
    "C13": [("aarch64", 48, 800, "", "")],
    "C14": [("i686", 96, 1600, "", ""), ("s390x", 48, 1600, "", ""), ("aarch64", 0, 1600, "", "")],
    "C15": [("x86_64", 192, 4096, "", "-Zmiri-preemption-rate=0.1"),
            ("aarch64", 0, 2048, "", "-Zmiri-preemption-rate=0.1"),
            ("x86_64", 0, 2048, "-Ctarget-feature=+avx2", "-Zmiri-preemption-rate=0.1")],
    "C16": [("x86_64", 64, 1600, "", "")],
}


def extra_substrates(prop, tier, seed, t0):
    import wasm as W
    r = _extra_substrates_miri(prop, tier, seed, t0)
    if r.get("violation"):
        return r
    w = W.extra(prop, tier, seed)
    if w.get("violation"):
        cov = dict(r.get("coverage", {}))
        cov.update(w.get("coverage", {}))
        return {"violation": w["violation"], "coverage": cov}
    cov = dict(r.get("coverage", {}))
    cov.update(w.get("coverage", {}))
    return {"coverage": cov, "assumptions": r.get("assumptions", []) + w.get("assumptions", [])}


def _extra_substrates_miri(prop, tier, seed, t0):
    cov = {}
    assumptions = []
    if os.environ.get("VERIF_NO_MIRI"):
        return {"coverage": {"miri": "skipped (VERIF_NO_MIRI set)"}}
    if prop == "C09":
        return c09_cross_process(tier, seed)
    plan = MIRI_PLAN.get(prop, [])
    runs = []
    for (target, q, t, rf, xf) in plan:
        n = q if tier == "quick" else t
        n = int(n * float(os.environ.get("VERIF_MIRI_SCALE", "1")))
        if n <= 0:
            continue
        per = max(2, (n + D.NCPU - 1) // D.NCPU) if tier == "quick" else 25
        if prop == "C15":
            per = max(2, (n + 2 * D.NCPU - 1) // (2 * D.NCPU)) if tier == "quick" else 16
        r = run_miri(prop, target, seed, 0, n, D.NCPU, per, miri_seed_base=seed * 1000, extra_flags=xf,
                     rustflags_extra=rf)
        runs.append({"target": TARGETS[target] + (" +avx2" if rf else ""), "families": r["families"],
                     "operations": r["ops"], "interpreter_processes_(=miri_seeds)": r["procs"],
                     "wall_s": round(r["wall"], 1),
                     "context_switch_points_(seam_events)": r["stats"].get("seam_events", 0)})
        if r["violation"]:
            rep = report_miri_violation(prop, seed, r["violation"])
            if rep:
                cov["miri_runs"] = runs
                return {"violation": rep, "coverage": cov}
    if runs:
        cov["miri_runs"] = runs
        assumptions.append("Miri runs: the interpreter's seeded scheduler and checked memory own the interleaving and the "
                           "bounds oracle there; a Miri failure replays from (target, flags, miri seed, VERIF_SEED, family) "
                           "and is not schedule-minimised")
    return {"coverage": cov, "assumptions": assumptions}


def c09_cross_process(tier, seed):
    """The same portable episodes under other build flavours and Miri targets;
    per-family result-log hashes are diffed against the native dbg flavour."""
    n_native = 20000 if tier == "quick" else 400000
    cov = {"cross_process": []}
    ref = None
    for flavour in ("dbg", "plain", "avx2"):
        exe = D.build(flavour)

        r = D.run_workers(exe, "C09", seed, n_native, max(200, n_native // (D.NCPU * 2)), want_hashes=True,
                          extra_args=["--portable"])
        D.cleanup_outs(r)
        if r.violation is not None:
            mn, text = D.handle_violation(exe, "C09", seed, r.violation)
            return {"violation": {"replay": mn, "text": "[flavour %s] %s" % (flavour, text)}, "coverage": cov}
        cov["cross_process"].append({"configuration": "native x86_64 " + flavour, "families": r.families,
                                     "operations": r.stats.get("ops", 0),
                                     "backend_served[swar,sse2,avx2]": r.stats.get("ran_backend")})
        if ref is None:
            ref = r.hashes
        else:
            bad = sorted(i for i in ref if i in r.hashes and r.hashes[i] != ref[i])
            if bad:
                v = {"how": "hash", "family": bad[0], "flavour": flavour}
                path = D.flavour_replay_file("C09", seed, bad[0], flavour)
                return {"violation": {"replay": path, "text": "result log of family %d differs between native dbg and "
                                      "native %s builds" % (bad[0], flavour)}, "coverage": cov}
    plan = [("aarch64", 64, 1600), ("s390x", 64, 1600), ("i686", 0, 1600), ("x86_64", 0, 1600)]
    for target, q, t in plan:
        n = q if tier == "quick" else t
        if n <= 0:
            continue
        r = run_miri("C09", target, seed, 0, n, D.NCPU, 4 if tier == "quick" else 25, miri_seed_base=seed * 1000,
                     portable=True, want_hashes=True)
        cov["cross_process"].append({"configuration": "Miri " + TARGETS[target], "families": r["families"],
                                     "operations": r["ops"], "wall_s": round(r["wall"], 1)})
        if r["violation"]:
            rep = report_miri_violation("C09", seed, r["violation"])
            if rep:
                return {"violation": rep, "coverage": cov}
        bad = sorted(i for i in r["hashes"] if ref.get(i) != r["hashes"][i])
        if bad:
            v = {"how": "gen", "family": bad[0], "target": target, "miri_seed": seed * 1000, "extra_flags": "",
                 "rustflags_extra": "", "portable": True}
            path = miri_replay_file("C09", seed, v)
            return {"violation": {"replay": path, "text": "result log of family %d differs between native x86_64 and "
                                  "Miri %s" % (bad[0], TARGETS[target])}, "coverage": cov}
    return {"coverage": cov, "assumptions": [
        "cross-process comparison uses the portable generator (no target-specific backends named); the in-process "
        "comparison covers the simulated-CPU dimension"]}
