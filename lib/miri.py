"""Other substrates (Miri targets, other native build flavours). Filled in below."""


def setup():
    return


def extra_substrates(prop, tier, seed, t0):
    return {}
