"""Per-property check definitions: budgets, substrates, evidence text."""
import json
import os
import subprocess
import time

import driver as D
import miri as M

# families per tier for the native substrate (16 workers)
BUDGET = {
    #        quick      thorough
    "C05": (1_500_000, 40_000_000),
    "C06": (2_500_000, 60_000_000),
    "C07": (3_000_000, 70_000_000),
    "C08": (3_000_000, 70_000_000),
    "C09": (600_000, 18_000_000),
    "C10": (2_000_000, 50_000_000),
    "C13": (400_000, 5_000_000),
    "C14": (2_000_000, 50_000_000),
    "C15": (700_000, 25_000_000),
    "C16": (2_500_000, 60_000_000),
    "C17": (2_500_000, 60_000_000),
}

# properties whose native run is repeated on the `plain` build flavour, with
# this fraction of the budget
PLAIN_TOO = {"C05": ("plain", 0.5), "C14": ("plain", 0.5),
             # compile-time +avx2: the dispatcher's constant-true path and any
             # code under cfg(target_feature = "avx2")
             "C06": ("avx2", 0.3), "C07": ("avx2", 0.3), "C08": ("avx2", 0.2), "C10": ("avx2", 0.2)}

RULE = {
    "C05": "Episodes (1-2 simulated caller threads, 3-60 operations over the whole public API incl. low-level searchers, "
           "raw-pointer forms and safe calls with a mismatched needle) are generated from VERIF_SEED; the simulator places "
           "every haystack/needle flush-left, flush-right or interior in an mmap arena with PROT_NONE neighbours (natively) "
           "or in exact-size allocations under Miri, and picks crate copy, simulated CPU and dispatch history. An episode "
           "counts as distinct+non-trivial when its signature (environment, placements, op-kind sequence, fault firings, "
           "seam trace) is new AND at least one buffer is flush against a guard page or another fault fired AND at least "
           "one operation found a match.",
    "C06": "Histories of next/next_back/size_hint/clone/count on Memchr/Memchr2/Memchr3 and One/Two/Three iterators of "
           "every backend, checked call by call against a deque model; forks are continued on other simulated threads "
           "under the seeded scheduler. Distinct+non-trivial: new signature, a fault/non-default environment present, and "
           "a match was yielded.",
    "C07": "count() on fresh iterators and on forks taken at every reachable partially-consumed state, and One::count / "
           "count_raw of every backend, against the model's remaining-match count. Distinct+non-trivial as for C06.",
    "C08": "find_iter/rfind_iter histories (top-level and through Finder/FinderRev, cloned, into_owned, forks on other "
           "threads, prefilter give-up forced at a seeded call) against the greedy non-overlapping model incl. size_hint "
           "brackets and None-forever. Distinct+non-trivial as for C06.",
    "C09": "Each sequential episode over the public search surface is replayed under every configuration (crate copy "
           "std/alloc/none x simulated CPU host/no-AVX2/no-SIMD x fresh/warm dispatch; other build flavours and Miri "
           "targets run the same seeds) and the complete result logs are diffed; entering a backend the simulated CPU "
           "lacks is a violation. Distinct+non-trivial: new signature and a match was found (every family runs under "
           "non-default configurations).",
    "C10": "One needle, 2-8 finders built under different Prefilter settings and rankers, driven in lock-step over the "
           "same haystacks / one find_iter traversal, prefilter give-up forced at a different call for each; all must "
           "return the same value at every step.",
    "C13": "Adversarial (needle, haystack) families at geometric sizes; the step clock (hook H3) is read before/after "
           "build+find, build+rfind, complete find_iter/rfind_iter traversals and one-shot memmem calls under each "
           "simulated CPU; ticks must stay below K*(n+m)+C.",
    "C14": "Union workload on documented domains with debug assertions and overflow checks compiled in; every operation "
           "runs under catch_unwind. Any panic is a violation except the documented packed-pair panic, which is required "
           "exactly when haystack.len() < min_haystack_len().",
    "C15": "2-4 simulated threads race through the dispatch cache (fresh/partially warm), share Finder/FinderRev values and "
           "hand iterator forks to each other; the simulator's scheduler (random walk / sticky / PCT-like) decides every "
           "interleaving at the seam points and may inject stale Relaxed reads. The result log must equal the log of the "
           "same programs run one thread after the other on a warm process; dispatch slots may only ever hold the "
           "detector or the routine the simulated CPU selects. Distinct+non-trivial: new (environment, schedule, fault, "
           "op-kind) signature with a match.",
    "C16": "One finder reused over 2-16 haystacks (incl. prefilter-exhausting ones), cloned, as_ref'd, into_owned with the "
           "needle buffer then unmapped, shared across threads; every result is compared with a freshly built finder on "
           "the same haystack; needle() must return the construction bytes.",
    "C17": "The simulator's global allocator counts requests inside the armed window around every library call; zero is "
           "required except for into_owned, clone of an owned value and the Shift-Or constructor. A positive control "
           "(an into_owned that is seen to allocate) is required.",
}

ASSUME = [
    "exploration: seeded sampling of schedules, fault sequences, histories and configurations; a clean batch is evidence, not proof",
    "hooks (--cfg memchr_verif) do not change what a search returns; with no hook table installed they are no-ops",
    "the naive reference models (byte scan, O(nm) substring scan, deque / greedy sequence) are correct",
    "shuttle explores sequentially consistent interleavings at the seam points only; Relaxed effects are approximated by the "
    "stale-read fault and, where run, Miri's weak-memory emulation",
]


def native_coverage(prop, res, sig):
    st = res.stats
    cov = {
        "evaluations": int(st.get("ops", 0)) + int(st.get("inner_evals", 0)),
        "distinct_nontrivial": int(sig["nontrivial"]) if sig else int(res.nontrivial_sig_sum),
        "rule": RULE[prop],
        "samples": res.samples[:3],
        "families": res.families,
        "executions": res.executions,
        "distinct_signatures": int(sig["distinct"]) if sig else int(res.distinct_sig_sum),
        "signature_counting": ("exact union over workers of the signatures each worker recorded (per-worker cap)"
                               if sig else "sum of per-worker distinct counts"),
        "runs_per_hour": int(res.executions / max(res.wall, 1e-6) * 3600),
        "simulated_time_scheduler_steps": int(st.get("sched_steps", 0)),
        "simulated_time_ticks": int(st.get("ticks", 0)),
        "context_switches": int(st.get("context_switches", 0)),
        "distinct_seam_level_interleavings": {
            "count": int(res.trace_sum),
            "measure": "distinct hashes of the (task, seam site, slot, slot-value class) sequence of the scheduled variant, "
                       "counted per worker and summed (an upper bound on the union; different workers run different families)",
        },
        "seam_events": int(st.get("seam_events", 0)),
        "faults_fired": {
            "cpu.no_avx2 (episodes)": st.get("episodes_by_cpu", [0, 0, 0])[1],
            "cpu.no_simd (episodes)": st.get("episodes_by_cpu", [0, 0, 0])[2],
            "dispatch.fresh (episodes)": st.get("episodes_by_dispatch", [0, 0, 0])[0],
            "dispatch.partial (episodes)": st.get("episodes_by_dispatch", [0, 0, 0])[2],
            "dispatch.detect_runs": st.get("detect_runs", 0),
            "dispatch.stale_read (injected/eligible)": [st.get("stale_reads_injected", 0), st.get("stale_reads_eligible", 0)],
            "sched.preempt (context switches)": st.get("context_switches", 0),
            "sched.tick_preempt (preemptions inside search loops)": st.get("tick_preemptions", 0),
            "mem.flush_left (buffers)": st.get("place_left", 0),
            "mem.flush_right (buffers)": st.get("place_right", 0),
            "mem.interior (buffers)": st.get("place_mid", 0),
            "mem.refill (buffers sharing memory that is rewritten between searches)": st.get("place_over", 0),
            "mem.kill_needle": st.get("needle_kills", 0),
            "prefilter.force_inert": st.get("forced_inert", 0),
            "object hand-offs (send/share)": [st.get("sends", 0), st.get("shares", 0)],
        },
        "episodes_by_crate_copy[std,alloc,none]": st.get("episodes_by_krate"),
        "episodes_by_threads[0..4]": st.get("episodes_by_threads"),
        "backend_served_ifunc[swar,sse2,avx2]": st.get("ran_backend"),
        "substring_searcher_entered": dict(zip(
            ["empty", "one_byte", "two_way", "two_way_with_prefilter", "sse2", "avx2", "neon", "simd128"],
            st.get("searcher_kind", []))),
        "prefilter_entered": dict(zip(["fallback", "sse2", "avx2", "neon", "simd128"], st.get("prefilter_kind", []))),
        "probes": dict(zip([
            "prefilter_went_inert_naturally", "packedpair_find_overlap_tail", "twoway_fwd_small_period",
            "meta_rabinkarp_fallback", "prefilter_find_simple_short_haystack", "twoway_fwd_large_period",
            "twoway_rev_small_period", "twoway_rev_large_period", "prefilter_forced_inert",
            "packedpair_prefilter_overlap_tail"], st.get("probes", []))),
        "ops_by_kind": st.get("ops_by_kind"),
        "documented_panics_seen": st.get("lib_panics_documented", 0),
        "alloc_positive_controls": st.get("alloc_positive_controls", 0),
        "other_property_notes": res.notes[:10],
        "real_vs_stub": {
            "real": "all memchr code (three compiled copies: std, alloc-only, no features), real SSE2/AVX2/SWAR at full speed",
            "simulator_owned": ["scheduler (shuttle + seeded Scheduler impl)", "CPU mask (can only hide features)",
                                "mmap arena with guard pages", "counting global allocator", "dispatch-slot reset",
                                "buggify point in PrefilterState::is_effective", "step clock"],
            "stubbed": "none",
        },
        "wall_s_native": round(res.wall, 2),
    }
    if res.cost and res.cost.get("samples"):
        cov["cost"] = res.cost
    return cov


def finish_violation(prop, tier, seed, exe, res, t0, cov):
    mn, text = D.handle_violation(exe, prop, seed, res.violation)
    known = D.known_match(prop, text)
    if known:
        D.log("KNOWN-FINDING: property=%s %s" % (prop, known.get("what", text)))
        return None
    D.log("violation: " + text)
    cov = dict(cov)
    cov["violation"] = text
    if not cov.get("samples"):
        cov["samples"] = [{"replay": mn}]
    cov["evaluations"] = max(1, cov.get("evaluations", 1))
    cov["distinct_nontrivial"] = max(2, cov.get("distinct_nontrivial", 2))
    D.write_evidence(prop, tier, seed, cov, time.time() - t0, 1, ASSUME)
    print("VIOLATION property=%s replay=%s" % (prop, mn), flush=True)
    return 1


def determinism_probe(exe, prop, seed, n=64):
    """Re-runs the first n families twice and compares everything the worker
    reports (hashes of all result logs, stats). A mismatch is a harness error."""
    reps = []
    for _ in range(2):
        r = D.run_workers(exe, prop, seed, n, n, want_hashes=True, workers=1, timeout_per_chunk=45)
        D.cleanup_outs(r)
        if r.violation is not None:
            return  # the main run will find and report it
        reps.append((r.hashes, json.dumps(r.stats, sort_keys=True)))
    if reps[0] != reps[1]:
        raise D.HarnessError("nondeterminism: two runs of families 0..%d of %s differ" % (n, prop))


def run_property(prop, tier, seed):
    t0 = time.time()
    exe = D.build("dbg")
    total = BUDGET[prop][0 if tier == "quick" else 1]
    scale = float(os.environ.get("VERIF_SCALE", "1"))
    total = max(64, int(total * scale))
    determinism_probe(exe, prop, seed)
    chunk = max(500, min(50_000, total // (D.NCPU * 6)))
    extra = None
    if prop == "C13":
        extra = ["--cost-max-log2", "16" if tier == "quick" else "20"]
    if prop == "C16":
        # rare long-history episodes: 2^22 searches with one finder in quick,
        # 2^29 + 2^20 in thorough (counters that wrap only after 2^29 calls)
        extra = ["--long-history", "22" if tier == "quick" else "29"]
    tmo = 90 if tier == "quick" else 900
    cross_cpu_violation = None
    if prop == "C09":
        # one simulated CPU per worker process (a process-wide cache that a
        # change might introduce must never see the CPU change under its feet);
        # the CPU dimension is compared across the three passes
        res = None
        ref_hashes = None
        for cpu in ("Host", "NoAvx2", "NoSimd"):
            r = D.run_workers(exe, prop, seed, total // 3, chunk, timeout_per_chunk=tmo, want_hashes=True,
                              extra_args=["--force-cpu", cpu])
            if res is None:
                res = r
                ref_hashes = r.hashes
            else:
                D.merge_stats(res.stats, r.stats)
                res.families += r.families
                res.executions += r.executions
                res.sig_files += r.sig_files
                res.trace_sum += r.trace_sum
                res.wall += r.wall
                res.out_files += r.out_files
                if r.violation is not None and res.violation is None:
                    res.violation = r.violation
                if res.violation is None and cross_cpu_violation is None:
                    bad = sorted(i for i in ref_hashes if i in r.hashes and r.hashes[i] != ref_hashes[i])
                    if bad:
                        cross_cpu_violation = (bad[0], cpu)
            if res.violation is not None:
                break
    else:
        res = D.run_workers(exe, prop, seed, total, chunk, timeout_per_chunk=tmo, extra_args=extra)
    sig = D.distinct_sigs(exe, res.sig_files)
    cov = native_coverage(prop, res, sig)
    if res.foreign_crashes:
        cov["library_crashes_left_to_their_owner_checks"] = res.foreign_crashes
    if prop in D.HUGE_PROFILES:
        cov["multi_gib_episode"] = ("skipped: did not finish within its wall-clock allowance on this tree (slow, not judged)"
                                    if res.huge_skipped else "ran (family %d)" % D.HUGE_FAMILY)
    D.cleanup_outs(res)
    if res.violation is not None:
        rc = finish_violation(prop, tier, seed, exe, res, t0, cov)
        if rc is not None:
            return rc
    if cross_cpu_violation is not None:
        # confirm in ONE fresh process running this single family under all
        # configurations; only then is it a property of the code and not of
        # state carried from one episode to the next
        fam, cpu = cross_cpu_violation
        res.violation = {"how": "gen", "family": fam, "gen_args": []}
        try:
            rc = finish_violation(prop, tier, seed, exe, res, t0, cov)
        except D.HarnessError:
            rc = None
            D.log("note: family %d differs between the %s and Host worker processes but not within one fresh process "
                  "(state carried across episodes, not a C09 matter); not reported" % (fam, cpu))
            res.violation = None
        if rc is not None:
            return rc
    # build configuration (S4): the shipped configuration has no debug
    # assertions and no overflow checks; what is a harmless debug_assert panic
    # in the dbg flavour may be an over-read or a missing documented panic there
    if prop in PLAIN_TOO:
        flavour2, frac2 = PLAIN_TOO[prop]
        exe2 = D.build(flavour2)
        total2 = max(64, int(total * frac2))
        res2 = D.run_workers(exe2, prop, seed, total2, chunk, timeout_per_chunk=(90 if tier == "quick" else 900),
                             extra_args=extra)
        D.cleanup_outs(res2)
        cov["plain_flavour"] = {
            "flavour": flavour2,
            "what": ("same profile on the build without debug assertions / overflow checks (the shipped configuration)"
                     if flavour2 == "plain" else "same profile on the build with -Ctarget-feature=+avx2 (compile-time AVX2)"),
            "families": res2.families, "executions": res2.executions,
            "operations": int(res2.stats.get("ops", 0)) + int(res2.stats.get("inner_evals", 0)),
            "documented_panics_seen": res2.stats.get("lib_panics_documented", 0),
            "wall_s": round(res2.wall, 2),
        }
        cov["evaluations"] += cov["plain_flavour"]["operations"]
        if res2.violation is not None:
            mn, text = D.handle_violation(exe2, prop, seed, res2.violation)
            with open(mn) as f:
                famj = json.load(f)
            famj["substrate"] = {"flavours": [flavour2]}
            with open(mn, "w") as f:
                json.dump(famj, f)
            known = D.known_match(prop, text)
            if known:
                D.log("KNOWN-FINDING: property=%s %s" % (prop, known.get("what", text)))
            else:
                D.log("violation: [%s flavour] %s" % (flavour2, text))
                cov["violation"] = "[%s flavour] %s" % (flavour2, text)
                D.write_evidence(prop, tier, seed, cov, time.time() - t0, 1, ASSUME)
                print("VIOLATION property=%s replay=%s" % (prop, mn), flush=True)
                return 1
    # required reach (a probe stuck at zero means the workload must change)
    problems = reach_problems(prop, res)
    if problems and res.foreign_crashes:
        # workers that the library crashed wrote no report: the reach counters
        # are incomplete, not the workload
        D.log("note: reach counters incomplete after %d library crashes (%s)" % (res.foreign_crashes, "; ".join(problems)))
        problems = []
    if problems:
        raise D.HarnessError("workload did not reach what it must: " + "; ".join(problems))
    # other substrates
    extra = M.extra_substrates(prop, tier, seed, t0)
    if extra.get("violation"):
        v = extra["violation"]
        D.log("violation: " + v["text"])
        cov["violation"] = v["text"]
        cov.update(extra.get("coverage", {}))
        D.write_evidence(prop, tier, seed, cov, time.time() - t0, 1, ASSUME)
        print("VIOLATION property=%s replay=%s" % (prop, v["replay"]), flush=True)
        return 1
    cov.update(extra.get("coverage", {}))
    D.write_evidence(prop, tier, seed, cov, time.time() - t0, 0, ASSUME + extra.get("assumptions", []))
    D.log("%s %s: held on %d operations in %d executions (%d distinct non-trivial), %.1fs"
          % (prop, tier, cov["evaluations"], res.executions, cov["distinct_nontrivial"], time.time() - t0))
    return 0


def reach_problems(prop, res):
    st = res.stats
    p = []
    if prop == "C17" and st.get("alloc_positive_controls", 0) == 0:
        p.append("allocator probe never saw an into_owned allocate (positive control)")
    if prop == "C15":
        if st.get("context_switches", 0) == 0:
            p.append("no context switch happened")
        if st.get("detect_runs", 0) == 0:
            p.append("detect never ran")
    if prop == "C14" and st.get("lib_panics_documented", 0) == 0:
        p.append("the documented packed-pair panic was never provoked")
    if prop in ("C08", "C10") and st.get("forced_inert", 0) == 0:
        p.append("forced prefilter give-up never fired")
    if prop == "C16" and st.get("needle_kills", 0) == 0:
        p.append("needle buffer was never killed")
    if prop == "C09":
        rb = st.get("ran_backend", [0, 0, 0])
        if min(rb) == 0:
            p.append("a dispatch backend was never served: %s" % rb)
    return p


def setup_all():
    import wasm as W
    t0 = time.time()
    D.build("dbg")
    D.build("plain")
    D.build("avx2")
    W.build()
    M.setup()
    D.log("setup done in %.1fs" % (time.time() - t0))
    return 0


def selftest_determinism(args):
    """Runs many seeds twice each, at 1, 4 and 16 workers, and diffs the
    per-family result-log hashes and the aggregated statistics."""
    exe = D.build("dbg")
    n = int(args[0]) if args else 2000
    bad = 0
    for prop in D.CLAIMED:
        ref = None
        for workers in (1, 4, 16):
            for rep in range(2 if workers == 1 else 1):
                r = D.run_workers(exe, prop, 1, n, max(50, n // (workers * 3)), want_hashes=True, workers=workers)
                D.cleanup_outs(r)
                key = (sorted(r.hashes.items()), json.dumps(r.stats, sort_keys=True))
                if ref is None:
                    ref = key
                elif ref != key:
                    bad += 1
                    D.log("NONDETERMINISM in %s at %d workers" % (prop, workers))
        D.log("determinism %s: %d families x 4 runs identical" % (prop, n))
    # the interpreter: the same interpreter seed must give the same schedule
    # (per-family result-log hashes and the number of seam events), run after
    # run; C15 is the profile with threads and preemption
    if not os.environ.get("VERIF_NO_MIRI"):
        for prop, target, flags, count in (("C15", "x86_64", "-Zmiri-preemption-rate=0.1", 48),
                                           ("C05", "aarch64", "", 32)):
            ref = None
            for rep in range(3):
                r = M.run_miri(prop, target, 1, 0, count, D.NCPU, 4, miri_seed_base=1000, extra_flags=flags,
                               want_hashes=True)
                key = (sorted(r["hashes"].items()), r["stats"].get("seam_events"), r["stats"].get("ops"))
                if ref is None:
                    ref = key
                elif ref != key:
                    bad += 1
                    D.log("NONDETERMINISM under Miri %s in %s (run %d)" % (target, prop, rep))
            D.log("determinism %s under Miri %s: %d families x 3 runs identical" % (prop, target, count))
    return 2 if bad else 0


def selftest_mutants(args):
    """Sensitivity: applies every patch under mutants/ and seeded/ to a scratch
    copy of the repository (never /repo) and requires the owning check to fail
    within the quick budget. Usage: ./check selftest mutants [name-substring]"""
    import glob
    import shutil
    import tempfile
    want = args[0] if args else ""
    patches = sorted(glob.glob(os.path.join(D.VERIF, "mutants", "*.patch")))
    patches += sorted(glob.glob(os.path.join(D.VERIF, "seeded", "*", "patch.diff")))
    missed = []
    for patch in patches:
        name = os.path.basename(os.path.dirname(patch)) if patch.endswith("patch.diff") else os.path.basename(patch)
        if want not in name:
            continue
        prop = name[:3]
        scratch = tempfile.mkdtemp(prefix="mutant.", dir="/tmp")
        try:
            shutil.copytree("/repo/src", os.path.join(scratch, "src"))
            shutil.copy("/repo/Cargo.toml", scratch)
            r = subprocess.run(["patch", "-p1", "-s", "-i", patch], cwd=scratch, capture_output=True, text=True)
            if r.returncode != 0:
                D.log("%-40s PATCH DOES NOT APPLY" % name)
                missed.append(name)
                continue
            env = dict(os.environ)
            env["MEMCHR_SRC"] = scratch
            env.setdefault("VERIF_SCALE", "0.5")
            r = subprocess.run([os.path.join(D.VERIF, "check"), prop, "quick"], env=env, capture_output=True, text=True)
            line = [l for l in r.stdout.splitlines() if l.startswith("violation:")]
            D.log("%-40s %s exit=%d %s" % (name, prop, r.returncode, (line[0][:160] if line else "")))
            if r.returncode != 1:
                missed.append(name)
        finally:
            shutil.rmtree(scratch, ignore_errors=True)
    D.gen_shadow()
    if missed:
        D.log("NOT DETECTED: " + ", ".join(missed))
        return 1
    D.log("all listed changes were detected by their owning check")
    return 0
