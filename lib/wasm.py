"""wasm32 + simd128 substrate: the crate (shipped code, no hooks, no cargo
features) compiled for wasm32-unknown-unknown with +simd128 and executed by
node's V8. The same portable episode families run natively (where every
operation is checked against the reference model) and under wasm; the complete
result logs must be identical. A haystack per episode ends at the very end of
linear memory, so an over-read traps."""
import json
import os
import subprocess
import time

import driver as D

WASM_DIR = os.path.join(D.VERIF, "wasm")
OUT = os.path.join(D.BUILD, "wasm")
MODULE = os.path.join(OUT, "harness.wasm")

# which profiles' portable episodes are interpreted under wasm for which check
PLAN = {
    #       profiles,                 quick, thorough families per profile
    "C05": (["C09", "C06", "C08"], 60_000, 500_000),
    "C06": (["C06"], 150_000, 1_500_000),
    "C07": (["C07"], 150_000, 1_500_000),
    "C08": (["C08"], 100_000, 1_000_000),
    "C09": (["C09"], 100_000, 1_000_000),
    "C14": (["C09", "C08"], 60_000, 500_000),
}

_built = False


def build():
    global _built
    if _built:
        return
    t0 = time.time()
    r = subprocess.run([os.path.join(WASM_DIR, "build.sh")], env=D.ENV_BASE if "MEMCHR_SRC" not in os.environ
                       else dict(D.ENV_BASE, MEMCHR_SRC=os.environ["MEMCHR_SRC"]), capture_output=True, text=True)
    if r.returncode != 0 or not os.path.exists(MODULE):
        raise D.HarnessError("wasm build failed:\n" + r.stderr[-4000:])
    r = subprocess.run(["node", "--version"], capture_output=True, text=True)
    if r.returncode != 0:
        raise D.HarnessError("node is not available")
    D.log("[wasm] module ready in %.1fs (node %s)" % (time.time() - t0, r.stdout.strip()))
    _built = True


def classify(what):
    if "out of bounds" in what:
        return "C05"
    if "unreachable" in what:
        return "C14"
    return None


def run_profile(exe, owner, profile, seed, total):
    """Returns dict(families, ops, violation or None)."""
    chunk = max(500, (total + D.NCPU - 1) // D.NCPU)
    ref = D.run_workers(exe, profile, seed, total, chunk, want_hashes=True, extra_args=["--portable"])
    D.cleanup_outs(ref)
    if ref.violation is not None:
        # the native run of the portable episodes found it first
        return {"native_violation": ref}
    # a pool of at most NCPU (gen | node) pipelines, each over a bounded range
    piece = max(500, min(20000, chunk))
    jobs = []
    i = 0
    while i < total:
        j = min(total, i + piece)
        jobs.append((i, j))
        i = j
    jobs.reverse()
    out = {"families": 0, "ops": 0, "violation": None}
    running = []

    def harvest(gen, node):
        so, se = node.communicate()
        gen.wait()
        if node.returncode != 0:
            raise D.HarnessError("wasm driver failed: " + se.decode("utf-8", "replace")[-3000:])
        for line in so.decode().splitlines():
            r = json.loads(line)
            out["families"] += 1
            out["ops"] += r["ops"]
            idx = r["index"]
            bad = None
            for v in r["violations"]:
                if v["what"].startswith("wasm trap"):
                    o = classify(v["what"])
                    if o == owner or (o is None and owner == "C05"):
                        bad = "%s (thread %d op %d %s)" % (v["what"], v["thread"], v["op"], v["kind"])
                    elif o is not None and o != owner:
                        continue
                elif owner == "C09":
                    bad = v["what"]
            if bad is None and not r["aborted"] and idx in ref.hashes and int(r["hash"]) != ref.hashes[idx]:
                if owner in ("C06", "C07", "C08", "C09"):
                    bad = ("result log of %s family %d differs between wasm32+simd128 and native x86_64 (whose every "
                           "operation agreed with the reference model)" % (profile, idx))
            if bad and (out["violation"] is None or idx < out["violation"]["family"]):
                out["violation"] = {"family": idx, "text": bad, "profile": profile}

    while jobs or running:
        while jobs and len(running) < D.NCPU and out["violation"] is None:
            lo, hi = jobs.pop()
            gen = subprocess.Popen([exe, "gen", "--prop", profile, "--seed", str(seed), "--portable", "--from", str(lo),
                                    "--to", str(hi)], stdout=subprocess.PIPE, env=D.ENV_BASE)
            node = subprocess.Popen(["node", os.path.join(WASM_DIR, "run.js"), MODULE], stdin=gen.stdout,
                                    stdout=subprocess.PIPE, stderr=subprocess.PIPE)
            gen.stdout.close()
            running.append((gen, node))
        if not running:
            break
        gen, node = running.pop(0)
        harvest(gen, node)
        if out["violation"] is not None:
            jobs = []
    return out


def replay_file(owner, profile, seed, family):
    os.makedirs(D.REPLAYS, exist_ok=True)
    exe = D.build("dbg")
    r = subprocess.run([exe, "gen", "--prop", profile, "--seed", str(seed), "--index", str(family), "--portable"],
                       capture_output=True, text=True, env=D.ENV_BASE)
    if r.returncode != 0:
        raise D.HarnessError("memsim gen failed: " + r.stderr)
    fam = json.loads(r.stdout)
    fam["substrate"] = {"wasm": True, "portable": True, "owner": owner}
    path = os.path.join(D.REPLAYS, "%s-seed%d-%s-family%s.wasm.json" % (owner, seed, profile, family))
    with open(path, "w") as f:
        json.dump(fam, f)
    return path


def replay(path, owner):
    """Returns (violated, text)."""
    build()
    exe = D.build("dbg")
    with open(path) as f:
        line = json.dumps(json.load(f))
    rr = subprocess.run([exe, "replay", path, "--logs"], capture_output=True, text=True, env=D.ENV_BASE)
    code = rr.returncode
    try:
        parsed = json.loads(rr.stdout.strip().splitlines()[-1])
    except Exception:
        parsed = None
    if code != 0 or not parsed:
        return True, "the native run of this episode fails already: " + D.describe({"how": "report"}, parsed)
    r = subprocess.run(["node", os.path.join(WASM_DIR, "run.js"), MODULE], input=line + "\n", capture_output=True,
                       text=True, env=dict(os.environ, WASM_LOGS="1"))
    if r.returncode != 0:
        raise D.HarnessError("wasm driver failed: " + r.stderr[-3000:])
    res = json.loads(r.stdout.strip().splitlines()[-1])
    for v in res["violations"]:
        if v["what"].startswith("wasm trap"):
            o = classify(v["what"])
            if o == owner or (o is None and owner == "C05"):
                return True, v["what"]
        elif owner == "C09":
            return True, v["what"]
    if not res["aborted"] and owner in ("C06", "C07", "C08", "C09") and int(res["hash"]) != parsed["log_hashes"][0]:
        where = ""
        try:
            with open(path) as f:
                threads = json.load(f)["base"]["threads"]
            for t, (ln, lw) in enumerate(zip(parsed["logs"], res["logs"])):
                for i, (a, b) in enumerate(zip(ln, lw)):
                    if a != b:
                        where = ": thread %d op %d %s returned %s under wasm but %s natively" % (
                            t, i, json.dumps(threads[t][i])[:160], json.dumps(b), json.dumps(a))
                        raise StopIteration
        except StopIteration:
            pass
        except Exception:
            pass
        return True, "result log differs between wasm32+simd128 and native x86_64" + where
    return False, "clean"


def extra(prop, tier, seed):
    if prop not in PLAN or os.environ.get("VERIF_NO_WASM"):
        return {}
    profiles, q, t = PLAN[prop]
    total = q if tier == "quick" else t
    scale = float(os.environ.get("VERIF_SCALE", "1"))
    total = max(200, int(total * scale))
    build()
    exe = D.build("dbg")
    cov = {"wasm32_simd128": []}
    t0 = time.time()
    for profile in profiles:
        r = run_profile(exe, prop, profile, seed, total)
        if "native_violation" in r:
            ref = r["native_violation"]
            if D.CLAIMED and profile == prop:
                mn, text = D.handle_violation(exe, prop, seed, ref.violation)
                return {"violation": {"replay": mn, "text": "[portable episodes, native] " + text}, "coverage": cov}
            continue
        cov["wasm32_simd128"].append({"episodes_of_profile": profile, "families": r["families"], "operations": r["ops"]})
        if r["violation"]:
            v = r["violation"]
            path = replay_file(prop, profile, seed, v["family"])
            bad, text = replay(path, prop)
            if not bad:
                raise D.HarnessError("wasm violation in family %s did not reproduce from %s" % (v["family"], path))
            return {"violation": {"replay": path, "text": "[wasm32+simd128 under node] " + text}, "coverage": cov}
    cov["wasm32_simd128_wall_s"] = round(time.time() - t0, 1)
    return {"coverage": cov, "assumptions": [
        "wasm32+simd128: the shipped code (no hooks, no cargo features, debug assertions on) runs for real under node/V8; "
        "its result logs are compared with the native run of the same portable episodes, which is itself checked against "
        "the reference model operation by operation; one haystack per episode ends at the end of linear memory"]}
