"""Orchestration of the memsim workers: build, fan-out, violation handling
(replay file, minimisation, fresh-process replay), evidence."""
import json
import os
import shutil
import subprocess
import sys
import time

VERIF = os.path.dirname(os.path.dirname(os.path.abspath(__file__)))
SIM = os.path.join(VERIF, "sim")
BUILD = os.path.join(VERIF, "build")
REPLAYS = os.path.join(VERIF, "replays")
EVIDENCE = os.path.join(VERIF, "evidence")
SCRATCH = os.path.join(BUILD, "scratch")
NCPU = max(1, min(16, os.cpu_count() or 1))

CLAIMED = ["C05", "C06", "C07", "C08", "C09", "C10", "C13", "C14", "C15", "C16", "C17"]

ENV_BASE = dict(os.environ)
ENV_BASE["CARGO_NET_OFFLINE"] = "true"
ENV_BASE.pop("RUSTFLAGS", None)


class HarnessError(Exception):
    pass


def log(msg):
    print(msg, flush=True)


# ---------------------------------------------------------------------------
# build

FLAVOURS = {
    # name: (cargo profile args, extra rustflags, target dir)
    "dbg": (["--release"], "", "dbg"),
    "plain": (["--profile", "plain"], "", "plain"),
    "avx2": (["--release"], "-Ctarget-feature=+avx2", "avx2"),
}


def gen_shadow():
    r = subprocess.run([os.path.join(VERIF, "shadow", "gen.sh")], env=ENV_BASE, capture_output=True, text=True)
    if r.returncode != 0:
        raise HarnessError("shadow/gen.sh failed: " + r.stderr)


def binary(flavour):
    _, _, tdir = FLAVOURS[flavour]
    prof = "plain" if flavour == "plain" else "release"
    return os.path.join(BUILD, tdir, prof, "memsim")


_built = set()


def build(flavour):
    """Incremental build of memsim against /repo's current working tree."""
    if flavour in _built:
        return binary(flavour)
    gen_shadow()
    prof_args, extra, tdir = FLAVOURS[flavour]
    env = dict(ENV_BASE)
    env["RUSTFLAGS"] = ("--cfg memchr_verif " + extra).strip()
    cmd = ["cargo", "build", "--offline"] + prof_args + ["--target-dir", os.path.join(BUILD, tdir)]
    t0 = time.time()
    r = subprocess.run(cmd, cwd=SIM, env=env, capture_output=True, text=True)
    if r.returncode != 0:
        sys.stderr.write(r.stdout[-4000:] + "\n" + r.stderr[-8000:] + "\n")
        raise HarnessError("build of flavour %s failed (does /repo still compile with --cfg memchr_verif?)" % flavour)
    b = binary(flavour)
    if not os.path.exists(b):
        raise HarnessError("build produced no binary at " + b)
    _built.add(flavour)
    log("[build] %s ready in %.1fs" % (flavour, time.time() - t0))
    return b


# ---------------------------------------------------------------------------
# running native workers


def merge_stats(a, b):
    """Adds report b's stats into a (both are dicts as written by memsim)."""
    for k, v in b.items():
        if isinstance(v, (int, float)):
            a[k] = a.get(k, 0) + v
        elif isinstance(v, list):
            if k not in a:
                a[k] = list(v)
            else:
                a[k] = [x + y for x, y in zip(a[k], v)]
        elif isinstance(v, dict):
            d = a.setdefault(k, {})
            for kk, vv in v.items():
                d[kk] = d.get(kk, 0) + vv
    return a


def merge_cost(a, b):
    if not b or b.get("samples", 0) == 0:
        return a
    if not a or a.get("samples", 0) == 0:
        return dict(b)
    out = dict(a)
    out["samples"] = a["samples"] + b["samples"]
    out["total_ticks"] = a["total_ticks"] + b["total_ticks"]
    if b["max_ratio_milli"] > a["max_ratio_milli"]:
        out["max_ratio_milli"] = b["max_ratio_milli"]
        out["max_ratio_case"] = b["max_ratio_case"]
    out["max_excess"] = max(a["max_excess"], b["max_excess"])
    out["max_n"] = max(a["max_n"], b["max_n"])
    out["max_m"] = max(a["max_m"], b["max_m"])
    ra = a.get("max_ratio_milli_by_cpu", [0, 0, 0])
    rb = b.get("max_ratio_milli_by_cpu", [0, 0, 0])
    out["max_ratio_milli_by_cpu"] = [max(x, y) for x, y in zip(ra, rb)]
    return out


class RunResult:
    def __init__(self):
        self.stats = {}
        self.cost = {}
        self.families = 0
        self.executions = 0
        self.samples = []
        self.notes = []
        self.hashes = {}
        self.sig_files = []
        self.distinct_sig_sum = 0
        self.nontrivial_sig_sum = 0
        self.trace_sum = 0
        self.huge_skipped = False
        self.foreign_crashes = 0
        self.violation = None  # dict: kind: 'report'|'trap'|'hang', ...
        self.wall = 0.0
        self.worker_wall = 0.0


# the one multi-GiB episode of a C07/C08/C14 run (4 GiB mappings of zero
# pages): family 99. On the unchanged tree it takes 5-20 s.
# which checks report a crash of the worker caused by the library: a fault in
# memory (SIGSEGV/SIGBUS) is an out-of-bounds read (C05), a use after free of
# the needle (C16) and an abnormal termination (C14); any other fatal signal
# (abort from an unsafe-precondition check, illegal instruction, ...) is C14's
TRAP_OWNERS_MEM = ("C05", "C14", "C16")
TRAP_OWNERS_ABORT = ("C14",)
HUGE_PROFILES = ("C07", "C08", "C14")
HUGE_FAMILY = 99
HUGE_BOUND_S = 240


def progress_family(out):
    try:
        with open(out + ".progress", "rb") as f:
            return int.from_bytes(f.read(8), "little")
    except Exception:
        return None


def run_workers(exe, prop, seed, total, chunk, want_hashes=False, timeout_per_chunk=600, first=0, sig_cap=300000,
                wrapper=None, workers=NCPU, env=None, extra_args=None):
    """Runs families [first, first+total) in chunks over a pool of processes."""
    os.makedirs(SCRATCH, exist_ok=True)
    tag = "%s-%d-%d" % (prop, os.getpid(), int(time.time() * 1000) % 100000)
    pending = []
    i = first
    while i < first + total:
        j = min(first + total, i + chunk)
        pending.append((i, j, []))
        i = j
    pending.reverse()
    running = {}
    res = RunResult()
    viol_chunk_args = []
    t0 = time.time()
    stop = False
    outs = []
    while (pending and not stop) or running:
        while pending and not stop and len(running) < workers:
            lo, hi, chunk_args = pending.pop()
            out = os.path.join(SCRATCH, "%s-%d.json" % (tag, lo))
            cmd = [exe, "run", "--prop", prop, "--seed", str(seed), "--from", str(lo), "--to", str(hi), "--out", out,
                   "--sig-cap", str(sig_cap)]
            if want_hashes:
                cmd.append("--hashes")
            if extra_args:
                cmd += list(extra_args)
            cmd += chunk_args
            if wrapper:
                cmd = wrapper(cmd)
            p = subprocess.Popen(cmd, stdout=subprocess.DEVNULL, stderr=subprocess.PIPE, env=env or ENV_BASE)
            running[p.pid] = (p, lo, hi, out, time.time(), chunk_args)
            if out not in outs:
                outs.append(out)
        time.sleep(0.005)
        for pid in list(running):
            p, lo, hi, out, started, chunk_args = running[pid]
            rc = p.poll()
            if rc is None:
                elapsed = time.time() - started
                in_huge = (prop in HUGE_PROFILES and lo <= HUGE_FAMILY < hi and "--no-huge" not in chunk_args
                           and "--no-huge" not in (extra_args or []) and elapsed > min(HUGE_BOUND_S, timeout_per_chunk / 2)
                           and progress_family(out) == HUGE_FAMILY)
                if in_huge:
                    # the multi-GiB episode is slow on this tree. Slow is not
                    # wrong (a count that became a loop over next() is still a
                    # count): the episode is not judged, the range runs again
                    # without it, and the evidence says so
                    p.kill()
                    p.wait()
                    del running[pid]
                    pending.append((lo, hi, ["--no-huge"]))
                    res.huge_skipped = True
                    log("[%s] the multi-GiB episode (family %d) did not finish in %ds: skipped, not judged" %
                        (prop, HUGE_FAMILY, min(HUGE_BOUND_S, timeout_per_chunk / 2)))
                    continue
                if elapsed > timeout_per_chunk:
                    p.kill()
                    p.wait()
                    fam = progress_family(out)
                    if res.violation is None:
                        res.violation = {"how": "hang", "family": fam, "lo": lo, "hi": hi}
                        viol_chunk_args = chunk_args
                    stop = True
                    del running[pid]
                continue
            err = p.stderr.read().decode("utf-8", "replace") if p.stderr else ""
            del running[pid]
            if rc in (0, 1):
                try:
                    with open(out) as f:
                        rep = json.load(f)
                except Exception as e:
                    raise HarnessError("worker %d..%d wrote no readable report: %s\n%s" % (lo, hi, e, err[-2000:]))
                merge_stats(res.stats, rep["stats"])
                res.cost = merge_cost(res.cost, rep.get("cost"))
                res.families += rep["families"]
                res.executions += rep["executions"]
                res.worker_wall += rep["wall_s"]
                res.distinct_sig_sum += rep["distinct_signatures"]
                res.nontrivial_sig_sum += rep["nontrivial_signatures"]
                res.trace_sum += rep.get("distinct_traces", 0)
                if len(res.samples) < 4:
                    res.samples.extend(rep["samples"][: 4 - len(res.samples)])
                if len(res.notes) < 20:
                    res.notes.extend(rep["other_property_notes"][: 20 - len(res.notes)])
                if want_hashes:
                    for idx, h in rep["log_hashes"]:
                        res.hashes[idx] = h
                if os.path.exists(out + ".sigs"):
                    res.sig_files.append(out + ".sigs")
                if rc == 1:
                    v = rep["violation"]
                    if res.violation is None or v["index"] < res.violation.get("family", 1 << 62):
                        res.violation = {"how": "report", "family": v["index"], "violations": v["violations"],
                                         "replay": v["family"], "lo": lo}
                        viol_chunk_args = chunk_args
                    stop = True
            elif rc == 77:
                trap = ""
                try:
                    with open(out + ".trap") as f:
                        trap = f.read().strip()
                except Exception:
                    pass
                if not trap:
                    trap = [l for l in err.splitlines() if l.startswith("TRAP")][-1] if "TRAP" in err else ""
                info = parse_trap(trap)
                owners = TRAP_OWNERS_MEM if info.get("signal") in (7, 11) else TRAP_OWNERS_ABORT
                if prop not in owners and isinstance(info.get("family"), int) and lo <= info["family"] < hi:
                    # the library crashed the process. That is an over-read
                    # (C05), a use after free (C16) or an abort (C14), and those
                    # checks report it; it is not what this property speaks of.
                    # The family is left out and the rest of the range runs.
                    res.foreign_crashes += 1
                    if len(res.notes) < 20:
                        res.notes.append({"kind": "Crash", "index": info["family"],
                                          "what": "library crashed the worker (signal %s); owned by %s, not by %s"
                                                  % (info.get("signal"), "/".join(owners), prop)})
                    log("note: the library crashed the worker in family %s (signal %s): %s's to report, not %s's; "
                        "family left out" % (info["family"], info.get("signal"), "/".join(owners), prop))
                    if res.foreign_crashes <= 200 and info["family"] + 1 < hi:
                        pending.append((info["family"] + 1, hi, chunk_args))
                    continue
                if res.violation is None or info.get("family", 1 << 62) < res.violation.get("family", 1 << 62):
                    res.violation = dict(info, how="trap", line=trap, lo=lo)
                    viol_chunk_args = chunk_args
                stop = True
            else:
                raise HarnessError("worker %d..%d exited with status %s\n%s" % (lo, hi, rc, err[-4000:]))
    for pid in list(running):
        running[pid][0].kill()
    res.wall = time.time() - t0
    res.out_files = outs
    if res.violation is not None:
        res.violation["gen_args"] = list(extra_args or []) + list(viol_chunk_args)
    return res


def cleanup_outs(res):
    for o in getattr(res, "out_files", []):
        for suf in ("", ".trap", ".progress", ".sigs"):
            try:
                os.remove(o + suf)
            except OSError:
                pass


def parse_trap(line):
    info = {}
    for tok in line.split():
        if "=" in tok:
            k, v = tok.split("=", 1)
            if k == "choices":
                info[k] = [int(x) for x in v.split(",") if x]
            else:
                try:
                    info[k] = int(v)
                except ValueError:
                    info[k] = v
    return info


def distinct_sigs(exe, files):
    if not files:
        return None
    r = subprocess.run([exe, "merge-sigs"] + files, capture_output=True, text=True, env=ENV_BASE)
    if r.returncode != 0:
        return None
    return json.loads(r.stdout)


# ---------------------------------------------------------------------------
# violation handling


def run_replay(exe, path, timeout=120, wrapper=None, env=None):
    """Returns (code, parsed stdout or None, stderr)."""
    cmd = [exe, "replay", path]
    if wrapper:
        cmd = wrapper(cmd)
    try:
        r = subprocess.run(cmd, capture_output=True, text=True, timeout=timeout, env=env or ENV_BASE)
    except subprocess.TimeoutExpired:
        return ("hang", None, "")
    parsed = None
    try:
        parsed = json.loads(r.stdout.strip().splitlines()[-1])
    except Exception:
        pass
    return (r.returncode, parsed, r.stderr)


def materialise(exe, prop, seed, viol):
    """Writes the raw replay file of a violation and returns its path."""
    os.makedirs(REPLAYS, exist_ok=True)
    fam = viol.get("family")
    raw = os.path.join(REPLAYS, "%s-seed%d-family%s.raw.json" % (prop, seed, fam))
    if viol["how"] == "report":
        with open(raw, "w") as f:
            json.dump(viol["replay"], f)
    else:
        cmd = [exe, "gen", "--prop", prop, "--seed", str(seed), "--index", str(fam)] + viol.get("gen_args", [])
        if viol["how"] == "trap" and viol.get("choices"):
            cmd += ["--choices", ",".join(str(c) for c in viol["choices"]), "--variant", str(viol.get("variant", 0))]
        r = subprocess.run(cmd, capture_output=True, text=True, env=ENV_BASE)
        if r.returncode != 0:
            raise HarnessError("memsim gen failed: " + r.stderr)
        famj = json.loads(r.stdout)
        if viol["how"] == "trap":
            famj["replay"] = True
            if not famj.get("choices"):
                famj["choices"] = [[] for _ in famj["variants"]]
        with open(raw, "w") as f:
            json.dump(famj, f)
    return raw


def describe(viol, parsed):
    if parsed and parsed.get("violations"):
        v = parsed["violations"][0][1]
        return "%s: %s" % (v["kind"], v["what"])
    if viol["how"] == "trap":
        return "hardware trap (%s)" % viol.get("line", "")
    if viol["how"] == "hang":
        return "no progress within the wall-clock bound (family %s)" % viol.get("family")
    if viol.get("violations"):
        v = viol["violations"][0][1]
        return "%s: %s" % (v["kind"], v["what"])
    return "violation"


def run_range(exe, prop, seed, lo, hi, gen_args, timeout=120):
    """Runs families [lo, hi) in ONE fresh worker process. Returns (rc, report or None, trap info or None)."""
    os.makedirs(SCRATCH, exist_ok=True)
    out = os.path.join(SCRATCH, "range-%s-%d-%d-%d.json" % (prop, os.getpid(), lo, hi))
    cmd = [exe, "run", "--prop", prop, "--seed", str(seed), "--from", str(lo), "--to", str(hi), "--out", out] + list(gen_args)
    try:
        r = subprocess.run(cmd, capture_output=True, text=True, timeout=timeout, env=ENV_BASE)
    except subprocess.TimeoutExpired:
        fam = None
        try:
            with open(out + ".progress", "rb") as f:
                fam = int.from_bytes(f.read(8), "little")
        except Exception:
            pass
        for suf in ("", ".trap", ".progress", ".sigs"):
            try:
                os.remove(out + suf)
            except OSError:
                pass
        return ("hang", None, {"family": fam})
    rep = None
    trap = None
    try:
        with open(out) as f:
            rep = json.load(f)
    except Exception:
        pass
    if r.returncode == 77:
        try:
            with open(out + ".trap") as f:
                trap = parse_trap(f.read().strip())
        except Exception:
            trap = {}
    for suf in ("", ".trap", ".progress", ".sigs"):
        try:
            os.remove(out + suf)
        except OSError:
            pass
    return (r.returncode, rep, trap)


def range_fails_at(exe, prop, seed, lo, fam, gen_args):
    rc, rep, trap = run_range(exe, prop, seed, lo, fam + 1, gen_args)
    if rc == 1 and rep and rep.get("violation") and rep["violation"]["index"] == fam:
        v = rep["violation"]["violations"][0][1]
        return "%s: %s" % (v["kind"], v["what"])
    if rc == 77 and trap is not None and trap.get("family") == fam:
        return "hardware trap in family %d" % fam
    if rc == "hang" and trap is not None and trap.get("family") == fam:
        return "HANG: no progress within the wall-clock bound in family %d" % fam
    return None


def range_replay(exe, prop, seed, viol):
    """Returns (path, text) when the violation reproduces from the worker's
    range in a fresh process (i.e. it depends on earlier calls), else None."""
    lo, fam, gen_args = viol["lo"], viol["family"], viol.get("gen_args", [])
    text = range_fails_at(exe, prop, seed, lo, fam, gen_args)
    if text is None:
        return None
    # shrink the history: the latest start that still reproduces (bisection
    # first, it is usually monotone; then a linear confirmation)
    best = lo
    a, b = lo, fam
    # (a hang costs a full timeout per attempt: its history is not shrunk)
    for _ in range(0 if text.startswith("HANG") else 24):
        if a >= b:
            break
        mid = (a + b + 1) // 2
        if range_fails_at(exe, prop, seed, mid, fam, gen_args) is not None:
            best = mid
            a = mid
        else:
            b = mid - 1
    os.makedirs(REPLAYS, exist_ok=True)
    path = os.path.join(REPLAYS, "%s-seed%d-range%d-%d.json" % (prop, seed, best, fam + 1))
    with open(path, "w") as f:
        json.dump({"substrate": {"range": {"prop": prop, "seed": seed, "from": best, "to": fam + 1, "family": fam,
                                           "gen_args": gen_args}},
                   "note": "the violation in family %d only appears after families %d..%d ran in the same process: "
                           "the library carries state from one call to the next" % (fam, best, fam - 1)}, f)
    return path, ("%s  [only after families %d..%d ran in the same process; family %d alone is clean in a fresh "
                  "process: the answer depends on earlier calls]" % (text, best, fam - 1, fam))


def handle_violation(exe, prop, seed, viol):
    """Minimise, replay in a fresh process, report. Returns (path, text) or
    raises HarnessError when the violation does not reproduce."""
    raw = materialise(exe, prop, seed, viol)
    code, parsed, err = run_replay(exe, raw, timeout=(25 if viol["how"] == "hang" else 120))
    reproduced = code in (1, 77, "hang")
    if not reproduced and "lo" in viol and viol.get("family") is not None:
        # The family alone is clean in a fresh process. Either the harness is
        # not deterministic, or the LIBRARY carries state from one call to the
        # next (a cache, a memo, a counter a change introduced) and the answer
        # depends on the calls made earlier in the worker process. Decide by
        # re-running the worker's own range in a fresh process.
        rng = range_replay(exe, prop, seed, viol)
        if rng is not None:
            try:
                os.remove(raw)
            except OSError:
                pass
            return rng
    if not reproduced:
        raise HarnessError(
            "violation in family %s did not reproduce from its replay file %s (replay exit %s): nondeterminism in the "
            "harness; not reporting it" % (viol.get("family"), raw, code))
    mn = raw.replace(".raw.json", ".min.json")
    if code != "hang":
        r = subprocess.run([exe, "minimise", raw, "--out", mn], capture_output=True, text=True, env=ENV_BASE,
                           timeout=900)
        sys.stderr.write(r.stderr[-2000:])
        if r.returncode != 0 or not os.path.exists(mn):
            shutil.copy(raw, mn)
    else:
        # a hang is not minimised (every candidate would cost a timeout); it
        # reproduced once from its replay file in a fresh process already
        shutil.copy(raw, mn)
        try:
            os.remove(raw)
        except OSError:
            pass
        return mn, describe(viol, None)
    code2, parsed2, err2 = run_replay(exe, mn)
    if code2 not in (1, 77, "hang"):
        # the minimised file must fail the same way in a fresh process;
        # fall back to the unminimised one, which did
        shutil.copy(raw, mn)
        code2, parsed2, err2 = code, parsed, err
    text = describe(viol, parsed2)
    if code2 == 77:
        traps = [l for l in (err2 or "").splitlines() if l.startswith("TRAP")]
        if traps:
            text = "hardware trap: " + traps[-1]
    try:
        os.remove(raw)
    except OSError:
        pass
    return mn, text


def handle_violation_portable(exe, prop, seed, viol):
    """Like handle_violation, for runs that used the portable generator."""
    if viol["how"] != "report":
        # regenerate with --portable
        os.makedirs(REPLAYS, exist_ok=True)
        fam = viol.get("family")
        raw = os.path.join(REPLAYS, "%s-seed%d-family%s.raw.json" % (prop, seed, fam))
        cmd = [exe, "gen", "--prop", prop, "--seed", str(seed), "--index", str(fam), "--portable"]
        if viol["how"] == "trap" and viol.get("choices"):
            cmd += ["--choices", ",".join(str(c) for c in viol["choices"]), "--variant", str(viol.get("variant", 0))]
        r = subprocess.run(cmd, capture_output=True, text=True, env=ENV_BASE)
        if r.returncode != 0:
            raise HarnessError("memsim gen failed: " + r.stderr)
        famj = json.loads(r.stdout)
        famj["replay"] = True
        if not famj.get("choices"):
            famj["choices"] = [[] for _ in famj["variants"]]
        viol = {"how": "report", "family": fam, "replay": famj}
    return handle_violation(exe, prop, seed, viol)


def flavour_replay_file(prop, seed, family, flavour):
    """A replay file for "two build flavours disagree on this family"."""
    os.makedirs(REPLAYS, exist_ok=True)
    exe = build("dbg")
    r = subprocess.run([exe, "gen", "--prop", prop, "--seed", str(seed), "--index", str(family), "--portable"],
                       capture_output=True, text=True, env=ENV_BASE)
    if r.returncode != 0:
        raise HarnessError("memsim gen failed: " + r.stderr)
    fam = json.loads(r.stdout)
    fam["substrate"] = {"flavours": ["dbg", flavour], "portable": True}
    path = os.path.join(REPLAYS, "%s-seed%d-family%s.%s-vs-dbg.json" % (prop, seed, family, flavour))
    with open(path, "w") as f:
        json.dump(fam, f)
    return path


def replay_any(prop, path):
    """Re-executes a replay file on the substrate it records. Returns
    (violated, text)."""
    with open(path) as f:
        fam = json.load(f)
    sub = fam.get("substrate")
    if not sub:
        exe = build("dbg")
        code, parsed, err = run_replay(exe, path, timeout=60)
        if code in (1, 77, "hang"):
            viol = {"how": "trap" if code == 77 else ("hang" if code == "hang" else "report"),
                    "line": " ".join(l for l in (err or "").splitlines() if l.startswith("TRAP"))}
            return True, describe(viol, parsed)
        if code == 0:
            return False, "clean"
        raise HarnessError("replay failed: " + (err or "")[-2000:])
    if sub.get("wasm"):
        import wasm as W
        return W.replay(path, sub.get("owner", prop))
    if "range" in sub:
        r = sub["range"]
        exe = build("dbg")
        text = range_fails_at(exe, r["prop"], r["seed"], r["from"], r["family"], r.get("gen_args", []))
        if text is None:
            return False, "clean"
        return True, text
    if "flavours" in sub:
        hashes = []
        for fl in sub["flavours"]:
            exe = build(fl)
            code, parsed, err = run_replay(exe, path)
            if code in (1, 77, "hang"):
                return True, "[flavour %s] %s" % (fl, describe({"how": "report"}, parsed))
            if code != 0 or not parsed:
                raise HarnessError("replay failed under flavour %s: %s" % (fl, (err or "")[-2000:]))
            hashes.append(parsed["log_hashes"][0])
        if len(set(hashes)) > 1:
            return True, "result logs differ between build flavours %s" % sub["flavours"]
        return False, "clean"
    import miri as M
    bad, text = M.replay_under_miri(path, sub)
    if bad:
        return True, text
    if sub.get("portable"):
        # also compare with the native answer
        exe = build("dbg")
        code, parsed, err = run_replay(exe, path)
        env = M.miri_env(sub["miri_target"], sub.get("miri_seed", 0), sub.get("extra_flags", ""),
                         sub.get("rustflags_extra", ""))
        r = subprocess.run(M.miri_cmd(sub["miri_target"], ["replay", path]), cwd=SIM, env=env, capture_output=True,
                           text=True)
        try:
            mh = json.loads(r.stdout.strip().splitlines()[-1])["log_hashes"][0]
        except Exception:
            raise HarnessError("Miri replay produced no log hash: " + r.stderr[-2000:])
        if parsed and parsed["log_hashes"][0] != mh:
            return True, "result log differs between native x86_64 and Miri %s" % sub["miri_target"]
    return False, "clean"


# ---------------------------------------------------------------------------
# known findings


def load_known():
    path = os.path.join(VERIF, "known-findings.jsonl")
    out = []
    if os.path.exists(path):
        with open(path) as f:
            for line in f:
                line = line.strip()
                if line and not line.startswith("#"):
                    out.append(json.loads(line))
    return out


def known_match(prop, text):
    for k in load_known():
        if k.get("status", "open") != "open":
            continue
        if k.get("property") == prop and k.get("match") and k["match"] in text:
            return k
    return None


# ---------------------------------------------------------------------------
# evidence


def write_evidence(prop, tier, seed, coverage, wall, violations, assumptions):
    os.makedirs(EVIDENCE, exist_ok=True)
    ev = {
        "property_id": prop,
        "tier": tier,
        "seed": seed,
        "level": "exploration",
        "coverage": coverage,
        "assumptions": assumptions,
        "wall_s": round(wall, 2),
        "violations": violations,
    }
    tmp = os.path.join(EVIDENCE, prop + ".json.tmp")
    with open(tmp, "w") as f:
        json.dump(ev, f, indent=1, sort_keys=True)
    os.replace(tmp, os.path.join(EVIDENCE, prop + ".json"))


from props import run_property, selftest_determinism, selftest_mutants, setup_all  # noqa: E402


def main(argv):
    if not argv:
        print(__doc__ or "usage: check <ID> quick|thorough | setup | selftest ...")
        return 2
    try:
        if argv[0] == "setup":
            return setup_all()
        if argv[0] == "selftest":
            what = argv[1] if len(argv) > 1 else "determinism"
            if what == "determinism":
                return selftest_determinism(argv[2:])
            if what == "mutants":
                return selftest_mutants(argv[2:])
            print("unknown selftest", what)
            return 2
        prop = argv[0]
        if prop not in CLAIMED:
            print("property %s is not claimed (see MANIFEST.json not_applicable)" % prop)
            return 2
        seed = int(os.environ.get("VERIF_SEED", "1"))
        if len(argv) >= 3 and argv[1] == "--replay":
            path = argv[2]
            bad, text = replay_any(prop, path)
            if bad:
                print("reproduced: " + text)
                print("VIOLATION property=%s replay=%s" % (prop, path))
                return 1
            print("replay ran clean: no violation of %s" % prop)
            return 0
        tier = argv[1] if len(argv) > 1 else os.environ.get("VERIF_TIER", "quick")
        if tier not in ("quick", "thorough"):
            print("tier must be quick or thorough")
            return 2
        return run_property(prop, tier, seed)
    except HarnessError as e:
        sys.stderr.write("HARNESS ERROR: %s\n" % e)
        return 2
