//! Episode generation: seed -> explicit episode family, per profile (property).
//!
//! Swarm style: every episode draws its own environment (crate copy, simulated
//! CPU, dispatch-cache history, scheduler, enabled fault kinds), sizes,
//! alphabets, thread count and workload mix. Many short, diverse episodes.

use crate::episode::*;
use crate::inputs;
use crate::rng::{episode_seed, Rng};

#[derive(Clone, Copy, Debug, PartialEq, Eq)]
pub enum Profile {
    C05,
    C06,
    C07,
    C08,
    C09,
    C10,
    C13,
    C14,
    C15,
    C16,
    C17,
}

impl Profile {
    pub fn parse(s: &str) -> Option<Profile> {
        Some(match s {
            "C05" => Profile::C05,
            "C06" => Profile::C06,
            "C07" => Profile::C07,
            "C08" => Profile::C08,
            "C09" => Profile::C09,
            "C10" => Profile::C10,
            "C13" => Profile::C13,
            "C14" => Profile::C14,
            "C15" => Profile::C15,
            "C16" => Profile::C16,
            "C17" => Profile::C17,
            _ => return None,
        })
    }
    pub fn name(self) -> &'static str {
        match self {
            Profile::C05 => "C05",
            Profile::C06 => "C06",
            Profile::C07 => "C07",
            Profile::C08 => "C08",
            Profile::C09 => "C09",
            Profile::C10 => "C10",
            Profile::C13 => "C13",
            Profile::C14 => "C14",
            Profile::C15 => "C15",
            Profile::C16 => "C16",
            Profile::C17 => "C17",
        }
    }
    pub fn number(self) -> u64 {
        self.name()[1..].parse().unwrap()
    }
    /// The violation classes this profile's check reports.
    pub fn owns(self, k: VKind) -> bool {
        k.property() == self.name()
    }
}

/// What the generator may assume about the process it generates for.
#[derive(Clone, Copy, Debug)]
pub struct Target {
    pub x86_64: bool,
    pub aarch64: bool,
    pub miri: bool,
    /// upper bound on haystack sizes (Miri is ~1000x slower)
    pub scale_small: bool,
    /// log2 of the largest haystack in cost episodes
    pub cost_max_log2: u32,
    /// C16: log2 of the number of searches made with one long-lived finder in
    /// the rare long-history episodes (0 = none)
    pub long_history_log2: u32,
    /// the multi-GiB episodes (family 99 of C07, C08, C14) are generated
    pub huge: bool,
}

struct B {
    rng: Rng,
    bufs: Vec<Buf>,
    threads: Vec<Vec<Op>>,
    next_slot: Vec<usize>,
    tgt: Target,
    /// bias placements towards flush-against-guard-page
    flush_bias: bool,
}

impl B {
    fn buf(&mut self, bytes: Vec<u8>, prefer: Option<Place>) -> BufId {
        if !self.flush_bias {
            // only the C05 profile puts buffers flush against unmapped pages:
            // elsewhere a trap caused by an over-read would be reported under
            // a property (iterator order, cost, ...) that still holds
            let place = Place::Mid(self.rng.below(64) as u8);
            let _ = prefer;
            self.bufs.push(Buf { bytes, place });
            return self.bufs.len() - 1;
        }
        let place = match prefer {
            Some(p) if self.rng.chance(3, 4) => p,
            _ => {
                let r = self.rng.below(if self.flush_bias { 10 } else { 16 });
                match r {
                    0..=2 => Place::Right,
                    3..=4 => Place::Left,
                    _ => Place::Mid(self.rng.below(64) as u8),
                }
            }
        };
        self.bufs.push(Buf { bytes, place });
        self.bufs.len() - 1
    }
    fn slot(&mut self, t: usize) -> Slot {
        let s = self.next_slot[t];
        self.next_slot[t] += 1;
        s
    }
    fn push(&mut self, t: usize, op: Op) {
        self.threads[t].push(op);
    }
    fn full(&self) -> bool {
        self.bufs.len() + 6 >= 90
    }
    fn byte_backend(&mut self) -> Backend {
        if self.tgt.x86_64 {
            *self.rng.pick(&[Backend::Top, Backend::Top, Backend::All, Backend::Sse2, Backend::Avx2])
        } else if self.tgt.aarch64 {
            *self.rng.pick(&[Backend::Top, Backend::Top, Backend::All, Backend::Neon])
        } else {
            *self.rng.pick(&[Backend::Top, Backend::All])
        }
    }
    fn vec_backend(&mut self) -> Backend {
        if self.tgt.x86_64 {
            *self.rng.pick(&[Backend::All, Backend::Sse2, Backend::Avx2])
        } else if self.tgt.aarch64 {
            *self.rng.pick(&[Backend::All, Backend::Neon])
        } else {
            Backend::All
        }
    }
    fn max_hay(&self, native: usize) -> usize {
        if self.tgt.scale_small {
            native.min(200)
        } else {
            native
        }
    }
    fn ranker(&mut self) -> Ranker {
        match self.rng.below(10) {
            0..=3 => Ranker::Default,
            4 => Ranker::Const(0),
            5 => Ranker::Const(255),
            6 => Ranker::Identity,
            7 => Ranker::Reversed,
            8 => Ranker::Table(self.rng.next_u64()),
            _ => {
                if self.rng.chance(1, 2) {
                    Ranker::NeedleCommon
                } else {
                    Ranker::NeedleRare
                }
            }
        }
    }
    fn finder_cfg(&mut self) -> FinderCfg {
        FinderCfg { prefilter: self.rng.chance(3, 4), ranker: self.ranker() }
    }

    // ------------------------------------------------------------------
    // scenarios

    /// One-shot byte searches through the given backends.
    fn scn_byte_oneshots(&mut self, t: usize, k: usize, top_only: bool, raw_forms: bool, max_hay: usize) {
        for _ in 0..k {
            if self.full() {
                return;
            }
            let (arity, n, hay) = inputs::byte_case(&mut self.rng, max_hay);
            let f = *self.rng.pick(&[ByteFn::Find, ByteFn::Find, ByteFn::Rfind, ByteFn::Rfind, ByteFn::Count]);
            let prefer = match f {
                ByteFn::Rfind => Some(Place::Left),
                _ => Some(Place::Right),
            };
            let hay = self.buf(hay, prefer);
            let be = if top_only { Backend::Top } else { self.byte_backend() };
            let raw = if raw_forms && be != Backend::Top {
                *self.rng.pick(&[RawForm::Slice, RawForm::Raw, RawForm::Raw, RawForm::RawEmpty, RawForm::RawInverted])
            } else {
                RawForm::Slice
            };
            let arity = if matches!(f, ByteFn::Count) && self.rng.chance(3, 4) { 1 } else { arity };
            self.push(t, Op::Byte { be, f, arity, n, hay, raw });
        }
    }

    /// A byte iterator history: next/next_back/size_hint/clone (forks continue
    /// on this or another thread) until both ends meet, then more calls.
    fn scn_byte_iter(&mut self, t: usize, count_heavy: bool, top_only: bool, max_hay: usize) {
        if self.full() {
            return;
        }
        let (mut arity, n, hay) = inputs::byte_case(&mut self.rng, max_hay);
        if count_heavy {
            arity = 1;
        }
        let nmatches = crate::model::byte_count(&hay, arity, &n);
        let hay = self.buf(hay, None);
        let be = if top_only { Backend::Top } else { self.byte_backend() };
        let it = self.slot(t);
        self.push(t, Op::IterNew { be, arity, n, hay, dst: it });
        // live iterators: (thread, slot)
        let mut live = vec![(t, it)];
        let budget = (nmatches + 6).min(if count_heavy { 14 } else if self.tgt.scale_small { 18 } else { 40 });
        let nthreads = self.threads.len();
        // pattern of ends
        let pattern = self.rng.below(5);
        for step in 0..budget {
            if live.is_empty() {
                break;
            }
            let which = self.rng.usize_below(live.len());
            let (th, s) = live[which];
            let r = self.rng.below(if count_heavy { 10 } else { 14 });
            match r {
                0 => self.push(th, Op::IterHint { it: s }),
                1 if live.len() < 8 => {
                    let d = self.slot(th);
                    self.push(th, Op::IterClone { it: s, dst: d });
                    // hand the fork to a higher thread sometimes
                    if th + 1 < nthreads && self.rng.chance(1, 2) {
                        let to = self.rng.range(th + 1, nthreads - 1);
                        self.push(th, Op::Send { s: d, to });
                        let rd = self.slot(to);
                        self.push(to, Op::Recv { from: th, dst: rd });
                        live.push((to, rd));
                    } else {
                        live.push((th, d));
                    }
                }
                2 | 3 if count_heavy => {
                    // count a fork taken at this state, keep the original
                    let d = self.slot(th);
                    self.push(th, Op::IterClone { it: s, dst: d });
                    self.push(th, Op::IterCount { it: d });
                }
                2 if !count_heavy && self.rng.chance(1, 3) => {
                    self.push(th, Op::IterCount { it: s });
                    live.remove(which);
                }
                _ => {
                    let front = match pattern {
                        0 => true,
                        1 => false,
                        2 => step % 2 == 0,
                        3 => step < budget / 2,
                        _ => self.rng.chance(1, 2),
                    };
                    if front {
                        self.push(th, Op::IterNext { it: s })
                    } else {
                        self.push(th, Op::IterNextBack { it: s })
                    }
                }
            }
        }
        // fused: a few more calls from each end on whatever is left, and a
        // final count (must be the number of matches not yet yielded)
        for &(th, s) in live.clone().iter() {
            if self.rng.chance(1, 2) {
                for _ in 0..2 {
                    self.push(th, Op::IterNext { it: s });
                    self.push(th, Op::IterNextBack { it: s });
                }
                self.push(th, Op::IterHint { it: s });
            }
            if self.rng.chance(1, 2) {
                self.push(th, Op::IterCount { it: s });
            } else {
                self.push(th, Op::Drop { s });
            }
        }
    }

    /// Substring iterator history.
    fn scn_sub_iter(&mut self, t: usize, max_hay: usize, max_needle: usize, allow_kill: bool) {
        if self.full() {
            return;
        }
        let (needle, hay) = inputs::sub_pair(&mut self.rng, max_hay, max_needle);
        let rev = self.rng.chance(1, 3);
        let list_len = if rev {
            crate::model::rfind_all(&hay, &needle).len()
        } else {
            crate::model::find_all(&hay, &needle).len()
        };
        let hay = self.buf(hay, None);
        let needle = self.buf(needle, None);
        let nthreads = self.threads.len();
        let it = self.slot(t);
        let mut finder_slot = None;
        let via_finder = self.rng.chance(2, 3);
        if via_finder {
            let f = self.slot(t);
            let cfg = self.finder_cfg();
            self.push(t, Op::FinderNew { rev, needle, cfg, dst: f });
            if self.rng.chance(1, 4) {
                self.push(t, Op::FinderOwn { f });
            }
            self.push(t, Op::FIterNew { f: Some(f), rev, hay, needle, dst: it });
            finder_slot = Some(f);
        } else {
            self.push(t, Op::FIterNew { f: None, rev, hay, needle, dst: it });
        }
        if !rev && self.rng.chance(1, 2) {
            let k = self.rng.below(12) as u32;
            self.push(t, Op::FIterForceInert { it, k });
        }
        let mut live = vec![(t, it)];
        // does anything still borrow the needle buffer?
        let mut borrowed_live = 1usize + finder_slot.is_some() as usize;
        let mut shared_out = false;
        let budget = (list_len + 5).min(if self.tgt.scale_small { 16 } else { 36 });
        for _ in 0..budget {
            if live.is_empty() {
                break;
            }
            let which = self.rng.usize_below(live.len());
            let (th, s) = live[which];
            match self.rng.below(16) {
                0 | 1 => self.push(th, Op::FIterHint { it: s }),
                2 if live.len() < 6 => {
                    let d = self.slot(th);
                    self.push(th, Op::FIterClone { it: s, dst: d });
                    borrowed_live += 1; // conservatively: a clone may borrow
                    if th + 1 < nthreads && self.rng.chance(1, 2) {
                        let to = self.rng.range(th + 1, nthreads - 1);
                        self.push(th, Op::Send { s: d, to });
                        let rd = self.slot(to);
                        self.push(to, Op::Recv { from: th, dst: rd });
                        live.push((to, rd));
                        shared_out = true;
                    } else {
                        live.push((th, d));
                    }
                }
                3 => {
                    self.push(th, Op::FIterOwn { it: s });
                }
                4 if !rev => {
                    let k = self.rng.below(8) as u32;
                    self.push(th, Op::FIterForceInert { it: s, k });
                }
                _ => self.push(th, Op::FIterNext { it: s }),
            }
        }
        let _ = borrowed_live;
        // needle-lifetime fault: convert every live iterator (all on thread t,
        // nothing was handed to another thread) and the finder to their owned
        // forms, then free the needle buffer and keep going
        if allow_kill && !shared_out && self.rng.chance(1, 2) && live.iter().all(|&(th, _)| th == t) {
            for &(_, s) in &live {
                self.push(t, Op::FIterOwn { it: s });
            }
            if let Some(f) = finder_slot {
                self.push(t, Op::FinderOwn { f });
            }
            self.push(t, Op::KillNeedle { buf: needle });
            for &(_, s) in &live {
                for _ in 0..self.rng.range(1, 4) {
                    self.push(t, Op::FIterNext { it: s });
                }
            }
            if let Some(f) = finder_slot {
                self.push(t, Op::FinderNeedle { f });
                let via_ref = self.rng.chance(1, 2);
                self.push(t, Op::FinderFind { f, hay, via_ref });
            }
        }
        for &(th, s) in live.clone().iter() {
            // after the end: None forever
            if self.rng.chance(1, 2) {
                for _ in 0..3 {
                    self.push(th, Op::FIterNext { it: s });
                }
                self.push(th, Op::FIterHint { it: s });
            }
            self.push(th, Op::Drop { s });
        }
    }

    /// One finder reused over many haystacks, forked, converted, its needle
    /// buffer freed after `into_owned`.
    fn scn_finder_reuse(&mut self, t: usize, max_hay: usize, max_needle: usize, allow_kill: bool) {
        if self.full() {
            return;
        }
        let (needle_bytes, hay0) = inputs::sub_pair(&mut self.rng, max_hay, max_needle);
        let rev = self.rng.chance(1, 3);
        let needle = self.buf(needle_bytes.clone(), None);
        let cfg = self.finder_cfg();
        let f = self.slot(t);
        self.push(t, Op::FinderNew { rev, needle, cfg, dst: f });
        let nthreads = self.threads.len();
        let nhays = self.rng.range(2, if self.tgt.scale_small { 6 } else { 16 });
        let mut hays = vec![self.buf(hay0, None)];
        for i in 1..nhays {
            if self.full() {
                break;
            }
            // haystacks related to the needle: planted, near misses, prefilter-exhausting
            let alpha: Vec<u8> = if needle_bytes.is_empty() { vec![b'a', b'b'] } else { needle_bytes.clone() };
            let len = inputs::len_biased(&mut self.rng, max_hay);
            let mut h = if i % 3 == 0 && needle_bytes.len() >= 2 {
                // many false candidates: the needle's bytes everywhere
                inputs::word(&mut self.rng, len, &alpha)
            } else {
                inputs::structured(&mut self.rng, len, &alpha)
            };
            if !needle_bytes.is_empty() && h.len() >= needle_bytes.len() && self.rng.chance(2, 3) {
                let at = self.rng.range(0, h.len() - needle_bytes.len());
                h[at..at + needle_bytes.len()].copy_from_slice(&needle_bytes);
            }
            hays.push(self.buf(h, None));
        }
        // (thread, slot, owned)
        let mut live: Vec<(usize, Slot, bool)> = vec![(t, f, false)];
        let mut any_borrowed_elsewhere = false;
        let mut killed = false;
        for (i, &hay) in hays.iter().enumerate() {
            let which = self.rng.usize_below(live.len());
            let (th, s, owned) = live[which];
            match self.rng.below(12) {
                0 if live.len() < 5 => {
                    let d = self.slot(th);
                    self.push(th, Op::FinderClone { f: s, dst: d });
                    live.push((th, d, owned));
                }
                1 => {
                    self.push(th, Op::FinderOwn { f: s });
                    live[which].2 = true;
                }
                2 if th + 1 < nthreads => {
                    // share the same finder value with another thread
                    let to = self.rng.range(th + 1, nthreads - 1);
                    self.push(th, Op::Share { s, to });
                    let rd = self.slot(to);
                    self.push(to, Op::Recv { from: th, dst: rd });
                    live.push((to, rd, owned));
                    if !owned {
                        any_borrowed_elsewhere = true;
                    }
                }
                3 => self.push(th, Op::FinderNeedle { f: s }),
                4 if !rev => {
                    let k = self.rng.below(10) as u32;
                    self.push(th, Op::ArmInert { k });
                }
                _ => {}
            }
            let (th, s, _) = live[self.rng.usize_below(live.len())];
            let via_ref = self.rng.chance(1, 4);
            self.push(th, Op::FinderFind { f: s, hay, via_ref });
            // needle-lifetime fault, once, somewhere in the middle
            if allow_kill && !killed && !any_borrowed_elsewhere && i >= 1 && self.rng.chance(1, 4) {
                if live.iter().all(|&(lt, _, _)| lt == t) {
                    for j in 0..live.len() {
                        if !live[j].2 {
                            self.push(t, Op::FinderOwn { f: live[j].1 });
                            live[j].2 = true;
                        }
                    }
                    self.push(t, Op::KillNeedle { buf: needle });
                    killed = true;
                }
            }
        }
        for &(th, s, _) in live.clone().iter() {
            if self.rng.chance(1, 2) {
                self.push(th, Op::FinderNeedle { f: s });
            }
            self.push(th, Op::Drop { s });
        }
    }

    /// One freshly built finder shared (same value, through an Arc) with every
    /// other thread; all of them search short and long haystacks with it at
    /// once, so that the finder's first searches race.
    fn scn_shared_finder_race(&mut self, max_hay: usize, max_needle: usize, searches: usize) {
        if self.full() || self.threads.len() < 2 {
            return;
        }
        let (needle_b, hay0) = inputs::sub_pair(&mut self.rng, max_hay, max_needle);
        let rev = self.rng.chance(1, 4);
        let needle = self.buf(needle_b.clone(), None);
        let cfg = self.finder_cfg();
        let f = self.slot(0);
        self.push(0, Op::FinderNew { rev, needle, cfg, dst: f });
        let n = self.threads.len();
        let mut holders = vec![(0usize, f)];
        for to in 1..n {
            self.push(0, Op::Share { s: f, to });
            let rd = self.slot(to);
            self.push(to, Op::Recv { from: 0, dst: rd });
            holders.push((to, rd));
        }
        // haystacks: short ones (below 16 bytes / below the vector minimum)
        // containing the needle, and ordinary ones
        let mut hays = vec![self.buf(hay0, None)];
        for _ in 0..searches {
            if self.full() {
                break;
            }
            let mut h: Vec<u8> = Vec::new();
            let pad = self.rng.range(0, 12);
            h.extend(std::iter::repeat(b'-').take(pad));
            h.extend_from_slice(&needle_b);
            let pad2 = self.rng.range(0, 6);
            h.extend(std::iter::repeat(b'-').take(pad2));
            h.truncate(max_hay.max(needle_b.len()));
            hays.push(self.buf(h, None));
        }
        for &(th, s) in &holders {
            for _ in 0..searches.max(1) {
                let hay = *self.rng.pick(&hays);
                let via_ref = self.rng.chance(1, 5);
                self.push(th, Op::FinderFind { f: s, hay, via_ref });
            }
        }
        for &(th, s) in &holders {
            self.push(th, Op::Drop { s });
        }
    }

    /// Finders with needles above the vector cap (Two-Way + prefilter), shared
    /// by all threads and searched at the same time over haystacks that are
    /// dense in false candidates of the rare-byte pair (two-letter alphabet:
    /// a candidate every ~4 bytes), so that the prefilter reaches the
    /// "enough samples, not effective: give up" decision in the middle of
    /// those searches. Whatever the search keeps about the prefilter's
    /// effectiveness must stay per call; if it is shared, the give-up of one
    /// thread lands between another thread's reads of it.
    fn scn_shared_finder_hostile(&mut self, max_hay: usize, finders: usize, searches: usize) {
        if self.full() || self.threads.len() < 2 {
            return;
        }
        let n = self.threads.len();
        let a = b'a' + self.rng.below(20) as u8;
        let alpha = [a, a + 1 + self.rng.below(4) as u8];
        for _ in 0..finders {
            if self.full() {
                break;
            }
            let nlen = self.rng.range(33, 48);
            let needle_b = inputs::word(&mut self.rng, nlen, &alpha);
            let hlen = self.rng.range((max_hay * 3 / 4).max(nlen + 8), max_hay.max(nlen + 9));
            let mut hay_b = inputs::word(&mut self.rng, hlen, &alpha);
            if self.rng.chance(1, 2) {
                // a real match near the end, behind the candidate-dense part
                let at = hlen - nlen - self.rng.range(0, 4);
                hay_b[at..at + nlen].copy_from_slice(&needle_b);
            }
            let needle = self.buf(needle_b, None);
            let hay = self.buf(hay_b, None);
            let cfg = FinderCfg { prefilter: true, ranker: if self.rng.chance(3, 4) { Ranker::Default } else { self.ranker() } };
            let f = self.slot(0);
            self.push(0, Op::FinderNew { rev: false, needle, cfg, dst: f });
            let mut holders = vec![(0usize, f)];
            for to in 1..n {
                self.push(0, Op::Share { s: f, to });
                let rd = self.slot(to);
                self.push(to, Op::Recv { from: 0, dst: rd });
                holders.push((to, rd));
            }
            for &(th, s) in &holders {
                for _ in 0..searches {
                    self.push(th, Op::FinderFind { f: s, hay, via_ref: false });
                }
                self.push(th, Op::Drop { s });
            }
        }
    }

    /// One finder shared before its first use: one thread makes the first
    /// search while the others copy it (`as_ref`, `clone`, an iterator) and
    /// search through the copy. Whatever a finder builds lazily must be
    /// complete in every copy, whenever the copy is taken.
    fn scn_copy_vs_first_use(&mut self) {
        if self.full() || self.threads.len() < 2 {
            return;
        }
        let nlen = self.rng.range(2, 12);
        let alpha = inputs::alphabet(&mut self.rng);
        let needle_b = inputs::word(&mut self.rng, nlen, &alpha);
        let hlen = self.rng.range(16, 30);
        let mut hay_b: Vec<u8> = inputs::word(&mut self.rng, hlen, &alpha);
        let at = self.rng.range(0, hay_b.len() - nlen);
        hay_b[at..at + nlen].copy_from_slice(&needle_b);
        let rev = self.rng.chance(2, 3);
        let needle = self.buf(needle_b, None);
        let hay = self.buf(hay_b, None);
        let cfg = self.finder_cfg();
        let f = self.slot(0);
        self.push(0, Op::FinderNew { rev, needle, cfg, dst: f });
        let n = self.threads.len();
        let mut holders = vec![(0usize, f)];
        for to in 1..n {
            self.push(0, Op::Share { s: f, to });
            let rd = self.slot(to);
            self.push(to, Op::Recv { from: 0, dst: rd });
            holders.push((to, rd));
        }
        let first = self.rng.usize_below(n);
        for &(th, s) in &holders {
            if th == first {
                self.push(th, Op::FinderFind { f: s, hay, via_ref: false });
                continue;
            }
            match self.rng.below(3) {
                0 => self.push(th, Op::FinderFind { f: s, hay, via_ref: true }),
                1 => {
                    let d = self.slot(th);
                    self.push(th, Op::FinderClone { f: s, dst: d });
                    self.push(th, Op::FinderFind { f: d, hay, via_ref: false });
                    self.push(th, Op::Drop { s: d });
                }
                _ => {
                    let it = self.slot(th);
                    self.push(th, Op::FIterNew { f: Some(s), rev, hay, needle, dst: it });
                    self.push(th, Op::FIterNext { it });
                    self.push(th, Op::FIterNext { it });
                    self.push(th, Op::Drop { s: it });
                }
            }
        }
        for &(th, s) in &holders {
            self.push(th, Op::FinderFind { f: s, hay, via_ref: false });
            self.push(th, Op::Drop { s });
        }
    }

    /// Every thread builds finders for its own long needle at the same time,
    /// then for the others': whatever construction shares between finders
    /// (a memo, a table) is written by several threads at once.
    fn scn_concurrent_construction(&mut self) {
        if self.full() || self.threads.len() < 2 {
            return;
        }
        let n = self.threads.len();
        let len = self.rng.range(128, 150);
        let alpha = inputs::alphabet(&mut self.rng);
        let base = inputs::structured(&mut self.rng, len, &alpha);
        let rev = self.rng.chance(2, 3);
        let mut needles = Vec::new();
        let mut hays = Vec::new();
        for t in 0..n {
            let mut nb = base.clone();
            // same length, different period structure
            let at = self.rng.usize_below(len);
            nb[at] = nb[at].wrapping_add(1 + t as u8);
            if t % 2 == 1 {
                nb.rotate_left(len / 3);
            }
            let plen = self.rng.range(4, 24);
            let mut h = inputs::word(&mut self.rng, plen, &alpha);
            h.extend_from_slice(&nb);
            h.extend_from_slice(&nb[..len / 2]);
            hays.push(self.buf(h, None));
            needles.push(self.buf(nb, None));
        }
        let cfg = FinderCfg { prefilter: true, ranker: Ranker::Default };
        for round in 0..3 {
            for t in 0..n {
                let which = match round {
                    0 | 1 => t,
                    _ => (t + 1) % n,
                };
                let f = self.slot(t);
                self.push(t, Op::FinderNew { rev, needle: needles[which], cfg: cfg.clone(), dst: f });
                self.push(t, Op::FinderFind { f, hay: hays[which], via_ref: false });
                self.push(t, Op::FinderFind { f, hay: hays[(which + 1) % n], via_ref: false });
                self.push(t, Op::Drop { s: f });
            }
        }
    }

    /// Counting over a large, regular haystack (fixed-width records, constant
    /// fill): tens of thousands of matches, the same lane matching in hundreds
    /// of consecutive vectors.
    fn scn_big_count(&mut self, t: usize, all_backends: bool) {
        if self.full() || self.tgt.scale_small {
            return;
        }
        let len = match self.rng.below(4) {
            0 => self.rng.range(8 * 1024, 12 * 1024),
            1 => self.rng.range(16 * 1024, 20 * 1024),
            2 => self.rng.range(24 * 1024, 40 * 1024),
            _ => self.rng.range(2048, 8 * 1024),
        };
        let needle = *self.rng.pick(&[b'\n', 0u8, b'a', 0xFF]);
        let other = if needle == b'-' { b'+' } else { b'-' };
        let hay: Vec<u8> = match self.rng.below(4) {
            0 => vec![needle; len],
            1 => {
                let period = *self.rng.pick(&[2usize, 4, 8, 16, 32, 64, 3, 5]);
                let at = self.rng.usize_below(period);
                (0..len).map(|i| if i % period == at { needle } else { other }).collect()
            }
            2 => {
                // mostly matches, a few holes
                let mut h = vec![needle; len];
                for _ in 0..self.rng.range(1, 20) {
                    let i = self.rng.usize_below(len);
                    h[i] = other;
                }
                h
            }
            _ => {
                // dense for a long stretch, then sparse
                let split = self.rng.range(len / 4, len - 1);
                (0..len).map(|i| if i < split || i % 97 == 0 { needle } else { other }).collect()
            }
        };
        let hay = self.buf(hay, None);
        let n = [needle, needle, needle];
        if all_backends {
            self.push(t, Op::ByteAll { f: ByteFn::Count, arity: 1, n, hay });
        } else {
            let be = self.byte_backend();
            self.push(t, Op::Byte { be, f: ByteFn::Count, arity: 1, n, hay, raw: RawForm::Slice });
            // and through an iterator that was advanced from both ends first
            if self.rng.chance(1, 4) {
                let be = self.byte_backend();
                let it = self.slot(t);
                self.push(t, Op::IterNew { be, arity: 1, n, hay, dst: it });
                for _ in 0..self.rng.range(0, 3) {
                    self.push(t, Op::IterNext { it });
                }
                for _ in 0..self.rng.range(0, 3) {
                    self.push(t, Op::IterNextBack { it });
                }
                self.push(t, Op::IterCount { it });
            }
        }
    }

    /// Two long needles of equal length that share their tail (and so any
    /// fingerprint computed from the last few dozen bytes) but differ early;
    /// a finder for each, possibly on different threads, searching haystacks
    /// that contain both. Anything keyed on partial information about a needle
    /// confuses the two.
    fn scn_related_finders(&mut self, ta: usize, tb: usize, max_hay: usize) {
        if self.full() {
            return;
        }
        let len = self.rng.range(64, 160);
        let alpha = inputs::alphabet(&mut self.rng);
        let a = inputs::structured(&mut self.rng, len, &alpha);
        let mut b = a.clone();
        // differ somewhere in the first len-33 bytes, in a way that changes
        // the needle's period/critical factorisation
        let at = self.rng.usize_below(len - 33);
        b[at] = if b[at] == b'#' { b'$' } else { b'#' };
        if self.rng.chance(1, 2) {
            let at2 = self.rng.usize_below(len - 33);
            b[at2] = b[at2].wrapping_add(1);
        }
        let na = self.buf(a.clone(), None);
        let nb = self.buf(b.clone(), None);
        let mut hays = Vec::new();
        for _ in 0..self.rng.range(2, 4) {
            if self.full() {
                break;
            }
            let mut h: Vec<u8> = Vec::new();
            let target = self.rng.range(len, max_hay.max(len + 1));
            while h.len() < target {
                match self.rng.below(5) {
                    0 => h.extend_from_slice(&a),
                    1 => h.extend_from_slice(&b),
                    2 => h.extend_from_slice(&a[..self.rng.range(1, len)]),
                    3 => h.extend_from_slice(&b[len - self.rng.range(1, len)..]),
                    _ => {
                        let k = self.rng.range(1, 20);
                        let w = inputs::word(&mut self.rng, k, &alpha);
                        h.extend_from_slice(&w);
                    }
                }
            }
            hays.push(self.buf(h, None));
        }
        let cfg = self.finder_cfg();
        let fa = self.slot(ta);
        self.push(ta, Op::FinderNew { rev: false, needle: na, cfg: cfg.clone(), dst: fa });
        let fb = self.slot(tb);
        self.push(tb, Op::FinderNew { rev: false, needle: nb, cfg, dst: fb });
        for &hay in &hays {
            self.push(ta, Op::FinderFind { f: fa, hay, via_ref: false });
            self.push(tb, Op::FinderFind { f: fb, hay, via_ref: false });
        }
        if let Some(&hay) = hays.first() {
            let it = self.slot(tb);
            self.push(tb, Op::FIterNew { f: Some(fb), rev: false, hay, needle: nb, dst: it });
            for _ in 0..self.rng.range(1, 4) {
                self.push(tb, Op::FIterNext { it });
            }
            self.push(tb, Op::Drop { s: it });
        }
        self.push(ta, Op::Drop { s: fa });
        self.push(tb, Op::Drop { s: fb });
    }

    fn scn_memmem_oneshots(&mut self, t: usize, k: usize, max_hay: usize, max_needle: usize) {
        for _ in 0..k {
            if self.full() {
                return;
            }
            let (needle, hay) = inputs::sub_pair(&mut self.rng, max_hay, max_needle);
            let rev = self.rng.chance(1, 2);
            let hay = self.buf(hay, Some(if rev { Place::Left } else { Place::Right }));
            let needle = self.buf(needle, None);
            self.push(t, Op::Mem { rev, hay, needle });
        }
    }

    /// Low-level public building blocks. `mismatch`: also make the safe
    /// calls whose search-time needle differs from the construction needle.
    fn scn_lowlevel(&mut self, t: usize, k: usize, mismatch: bool, max_hay: usize, max_needle: usize) {
        for _ in 0..k {
            if self.full() {
                return;
            }
            let (needle_b, hay_b) = inputs::sub_pair(&mut self.rng, max_hay, max_needle);
            let which = self.rng.below(10);
            match which {
                0 | 1 => {
                    let rev = self.rng.chance(1, 2);
                    let hay = self.buf(hay_b, Some(if rev { Place::Left } else { Place::Right }));
                    let needle = self.buf(needle_b.clone(), Some(Place::Right));
                    let needle2 = if mismatch && self.rng.chance(1, 3) {
                        let l = inputs::needle_len(&mut self.rng, max_needle);
                        let n2 = inputs::word(&mut self.rng, l, b"ab");
                        Some(self.buf(n2, Some(Place::Right)))
                    } else {
                        None
                    };
                    self.push(t, Op::TwoWay { rev, hay, needle, needle2 });
                }
                2 | 3 => {
                    let rev = self.rng.chance(1, 2);
                    let hay = self.buf(hay_b, Some(if rev { Place::Left } else { Place::Right }));
                    let needle = self.buf(needle_b.clone(), Some(Place::Left));
                    let needle2 = if mismatch && self.rng.chance(1, 3) {
                        let l = inputs::needle_len(&mut self.rng, max_needle);
                        let n2 = inputs::word(&mut self.rng, l, b"ab");
                        Some(self.buf(n2, Some(Place::Right)))
                    } else {
                        None
                    };
                    self.push(t, Op::RabinKarp { rev, hay, needle, needle2 });
                }
                4 => {
                    let hay = self.buf(hay_b, Some(Place::Right));
                    let mut n = needle_b.clone();
                    if self.rng.chance(3, 4) {
                        n.truncate(15);
                    }
                    let needle = self.buf(n, None);
                    self.push(t, Op::ShiftOr { hay, needle });
                }
                5 | 6 | 7 => {
                    // packed pair; haystack lengths around min_haystack_len
                    let be = self.vec_backend();
                    let mut needle_v = needle_b.clone();
                    if needle_v.len() < 2 {
                        let l = self.rng_range(2, 40);
                        needle_v = inputs::word(&mut self.rng, l, b"abc");
                    }
                    let pair = if self.rng.chance(1, 2) {
                        None
                    } else {
                        let m = needle_v.len().min(256);
                        let mut i1 = self.rng.usize_below(m) as u8;
                        let mut i2 = self.rng.usize_below(m) as u8;
                        if self.rng.chance(9, 10) && i1 == i2 {
                            i2 = ((i2 as usize + 1) % m) as u8;
                        }
                        // sometimes an offset just outside the needle: the
                        // pair constructor must refuse it
                        if self.rng.chance(1, 8) && needle_v.len() < 254 {
                            let out = (needle_v.len() + self.rng.range(0, 1)) as u8;
                            if self.rng.chance(1, 2) {
                                i2 = out;
                            } else {
                                i1 = out;
                            }
                        }
                        Some((i1, i2))
                    };
                    let vbytes = match be {
                        Backend::Avx2 => 32,
                        _ => 16,
                    };
                    let maxidx = match pair {
                        Some((a, b)) => a.max(b) as usize,
                        None => needle_v.len().min(255) - 1,
                    };
                    let approx_min = needle_v.len().max(maxidx + vbytes);
                    let mut hay_v = hay_b.clone();
                    if self.rng.chance(1, 2) {
                        // lengths on both sides of the minimum
                        let target = (approx_min as i64 + self.rng.range(0, 6) as i64 - 3).max(0) as usize;
                        let alpha: Vec<u8> = needle_v.clone();
                        hay_v = inputs::word(&mut self.rng, target.min(max_hay.max(approx_min + 3)), &alpha);
                    }
                    let prefilter = self.rng.chance(1, 2);
                    let hay = self.buf(hay_v, Some(Place::Right));
                    let needle = self.buf(needle_v, Some(Place::Right));
                    let needle2 = if mismatch && !prefilter && self.rng.chance(1, 3) {
                        let l = inputs::needle_len(&mut self.rng, max_needle).max(2);
                        let n2 = inputs::word(&mut self.rng, l, b"ab");
                        Some(self.buf(n2, Some(Place::Right)))
                    } else {
                        None
                    };
                    self.push(t, Op::Packed { be, pair, prefilter, hay, needle, needle2 });
                }
                8 => {
                    let f = *self.rng.pick(&[CmpFn::IsEqual, CmpFn::IsPrefix, CmpFn::IsSuffix]);
                    let l = self.rng.range(0, 70);
                    let a_b = inputs::word(&mut self.rng, l, b"ab");
                    let mut b_b = a_b.clone();
                    match self.rng.below(4) {
                        0 => {}
                        1 if !b_b.is_empty() => {
                            let i = self.rng.usize_below(b_b.len());
                            b_b[i] ^= 1;
                        }
                        2 => {
                            let keep = self.rng.range(0, b_b.len());
                            if matches!(f, CmpFn::IsSuffix) {
                                b_b = b_b[b_b.len() - keep..].to_vec();
                            } else {
                                b_b.truncate(keep);
                            }
                        }
                        _ => b_b.push(b'a'),
                    }
                    // both operands flush, on opposite sides
                    let a = self.buf(a_b, Some(Place::Right));
                    let b = self.buf(b_b, Some(Place::Left));
                    self.push(t, Op::Cmp { f, a, b });
                }
                _ => {
                    let needle = self.buf(needle_b, None);
                    if self.rng.chance(1, 2) {
                        let ranker = self.ranker();
                        self.push(t, Op::PairNew { needle, ranker });
                    } else {
                        let i1 = self.rng.byte();
                        let i2 = if self.rng.chance(1, 8) { i1 } else { self.rng.byte() };
                        self.push(t, Op::PairIdx { needle, i1, i2 });
                    }
                }
            }
        }
    }

    fn rng_range(&mut self, lo: usize, hi: usize) -> usize {
        self.rng.range(lo, hi)
    }

    fn scn_lockstep(&mut self, t: usize, max_hay: usize, max_needle: usize) {
        if self.full() {
            return;
        }
        let (needle_b, hay0) = inputs::sub_pair(&mut self.rng, max_hay, max_needle);
        let needle = self.buf(needle_b.clone(), None);
        let ncfg = self.rng.range(2, 8);
        let mut cfgs = vec![FinderCfg { prefilter: false, ranker: Ranker::Default }];
        let mut inert_at = vec![None];
        for _ in 1..ncfg {
            cfgs.push(self.finder_cfg());
            inert_at.push(if self.rng.chance(1, 2) { Some(self.rng.below(60) as u32) } else { None });
        }
        let iter = self.rng.chance(1, 2);
        let nh = self.rng.range(1, if iter { 2 } else { 6 });
        let mut hays = vec![self.buf(hay0, None)];
        for i in 1..nh {
            if self.full() {
                break;
            }
            let alpha: Vec<u8> = if needle_b.is_empty() { vec![b'a'] } else { needle_b.clone() };
            let len = inputs::len_biased(&mut self.rng, max_hay);
            let mut h = if i % 2 == 1 {
                inputs::word(&mut self.rng, len, &alpha)
            } else {
                inputs::structured(&mut self.rng, len, &alpha)
            };
            if !needle_b.is_empty() && h.len() >= needle_b.len() && self.rng.chance(2, 3) {
                // plant late, so that the early part can wear the prefilter out
                let lo = h.len() - needle_b.len();
                let at = if self.rng.chance(1, 2) { lo } else { self.rng.range(0, lo) };
                h[at..at + needle_b.len()].copy_from_slice(&needle_b);
            }
            hays.push(self.buf(h, None));
        }
        self.push(t, Op::Lockstep { needle, cfgs, hays, iter, inert_at });
    }

    /// C16: one finder, one piece of memory whose contents change between
    /// searches (a read buffer that is refilled). Whatever a finder remembers
    /// about a haystack, its address is not the haystack.
    fn scn_refill(&mut self, t: usize, max_hay: usize, max_needle: usize) {
        if self.full() {
            return;
        }
        let (mut needle_bytes, _) = inputs::sub_pair(&mut self.rng, 64, max_needle);
        if needle_bytes.is_empty() {
            needle_bytes = vec![b'q', b'z'];
        }
        let len = match self.rng.below(4) {
            0 => self.rng.range(needle_bytes.len(), needle_bytes.len() + 80),
            1 => self.rng.range(512, 700),
            _ => inputs::len_biased(&mut self.rng, max_hay).max(needle_bytes.len() + 1),
        };
        // first contents: made of bytes the needle does not have (no match,
        // no candidate), or of the needle's own bytes
        let absent: Vec<u8> = (0..=255u8).filter(|b| !needle_bytes.contains(b)).take(3).collect();
        let alpha: Vec<u8> = if self.rng.chance(2, 3) && !absent.is_empty() { absent } else { needle_bytes.clone() };
        let first = inputs::word(&mut self.rng, len, &alpha);
        let mut versions: Vec<Vec<u8>> = Vec::new();
        for _ in 0..self.rng.range(1, 3) {
            let mut h = if self.rng.chance(1, 2) {
                first.clone()
            } else {
                inputs::structured(&mut self.rng, len, &needle_bytes)
            };
            h.resize(len, alpha[0]);
            if self.rng.chance(4, 5) && len >= needle_bytes.len() {
                let at = match self.rng.below(3) {
                    0 => 0,
                    1 => len - needle_bytes.len(),
                    _ => self.rng.range(0, len - needle_bytes.len()),
                };
                h[at..at + needle_bytes.len()].copy_from_slice(&needle_bytes);
            }
            versions.push(h);
        }
        let rev = self.rng.chance(1, 3);
        let needle = self.buf(needle_bytes, None);
        let cfg = self.finder_cfg();
        let f = self.slot(t);
        self.push(t, Op::FinderNew { rev, needle, cfg, dst: f });
        let base = self.buf(first, None);
        let mut ids = vec![base];
        for v in versions {
            self.bufs.push(Buf { bytes: v, place: Place::Over(base) });
            ids.push(self.bufs.len() - 1);
        }
        let mut cur = base;
        for step in 0..self.rng.range(2, 7) {
            if self.full() {
                break;
            }
            if step > 0 && self.rng.chance(2, 3) {
                cur = *self.rng.pick(&ids);
                self.push(t, Op::Refill { buf: cur });
            }
            if self.rng.chance(1, 5) {
                // a complete traversal, dropped before the memory changes again
                let it = self.slot(t);
                self.push(t, Op::FIterNew { f: Some(f), rev, hay: cur, needle, dst: it });
                for _ in 0..self.rng.range(1, 4) {
                    self.push(t, Op::FIterNext { it });
                }
                self.push(t, Op::Drop { s: it });
            } else {
                let via_ref = self.rng.chance(1, 4);
                self.push(t, Op::FinderFind { f, hay: cur, via_ref });
            }
        }
        self.push(t, Op::Drop { s: f });
    }

    fn scn_cost(&mut self, t: usize) {
        let max_log = self.tgt.cost_max_log2.max(8);
        let nlog = self.rng.range(8, max_log as usize) as u32;
        let n = (1usize << nlog) + self.rng.range(0, 17) - 8;
        let mmax = (nlog as usize).saturating_sub(2).min(14).max(1);
        let m = match self.rng.below(6) {
            0 => self.rng.range(2, 8),
            1 => self.rng.range(9, 32),
            2 => 33 + self.rng.range(0, 30),
            _ => (1usize << self.rng.range(1, mmax)) + self.rng.range(0, 3),
        };
        let (n, m) = if self.tgt.miri && self.rng.chance(1, 2) {
            // the interpreter affords few, small episodes: spend half of them
            // where a vector searcher without its needle-length cap would hurt
            // (needle longer than the largest pair offset, 254)
            (1usize << max_log, self.rng.range(260, 520))
        } else {
            (n, m)
        };
        let (needle, hay, _fam) = inputs::cost_pair(&mut self.rng, n, m);
        let hay = self.buf(hay, None);
        let needle = self.buf(needle, None);
        let f = *self.rng.pick(&[
            CostFn::BuildFind,
            CostFn::BuildFind,
            CostFn::BuildRfind,
            CostFn::FindIterAll,
            CostFn::FindIterAll,
            CostFn::RfindIterAll,
            CostFn::MemFind,
            CostFn::MemRfind,
        ]);
        let cfg = match self.rng.below(4) {
            0 | 1 => None,
            2 => Some(FinderCfg { prefilter: false, ranker: Ranker::Default }),
            _ => Some(self.finder_cfg()),
        };
        self.push(t, Op::Cost { f, hay, needle, cfg });
    }

    fn scn_cross_backend(&mut self, t: usize, k: usize, max_hay: usize, max_needle: usize) {
        for _ in 0..k {
            if self.full() {
                return;
            }
            if self.rng.chance(2, 3) {
                let (arity, n, hay) = inputs::byte_case(&mut self.rng, max_hay);
                let f = *self.rng.pick(&[ByteFn::Find, ByteFn::Rfind, ByteFn::Count]);
                let hay = self.buf(hay, None);
                let arity = if matches!(f, ByteFn::Count) { 1 } else { arity };
                self.push(t, Op::ByteAll { f, arity, n, hay });
            } else {
                let (mut needle, hay) = inputs::sub_pair(&mut self.rng, max_hay, max_needle.min(64));
                if needle.len() < 2 {
                    needle = vec![b'a', b'b'];
                }
                let hay = self.buf(hay, None);
                let needle = self.buf(needle, None);
                self.push(t, Op::PackedAll { hay, needle });
            }
        }
    }
}

fn draw_env(rng: &mut Rng, tgt: &Target, nthreads: usize, concurrent_faults: bool) -> Env {
    let krate = *rng.pick(&[Krate::Std, Krate::Std, Krate::Std, Krate::Alloc, Krate::Core]);
    let cpu = if tgt.x86_64 {
        *rng.pick(&[Cpu::Host, Cpu::Host, Cpu::NoAvx2, Cpu::NoSimd])
    } else {
        Cpu::Host
    };
    let dispatch = match rng.below(10) {
        0..=5 => Dispatch::Fresh,
        6..=7 => Dispatch::Partial(rng.below(128) as u8),
        _ => Dispatch::Warm,
    };
    let sched = if nthreads <= 1 {
        Sched::Sequential
    } else {
        match rng.below(8) {
            0..=2 => Sched::Random,
            3 => Sched::Sticky(2),
            4 => Sched::Sticky(4),
            5 => Sched::Sticky(8),
            _ => Sched::Pct(1 + rng.below(3) as u8),
        }
    };
    let mut stale_pct = if concurrent_faults { *rng.pick(&[0u8, 0, 10, 30, 30, 60]) } else { 0 };
    if tgt.miri {
        // under Miri the real atomics run under its weak-memory emulation;
        // the explicit fault is not needed (and would only mask it)
        stale_pct = 0;
    }
    let tick_preempt = if concurrent_faults && nthreads > 1 && !tgt.miri { *rng.pick(&[0u8, 0, 3, 10, 40]) } else { 0 };
    Env { krate, cpu, dispatch, sched, stale_pct, poison: 0, tick_preempt }
}

/// Generates episode family `index` of a profile.
pub fn generate(profile: Profile, verif_seed: u64, index: u64, tgt: Target) -> Family {
    let seed = episode_seed(verif_seed, profile.number(), index);
    let mut rng = Rng::new(seed);
    let nthreads = match profile {
        Profile::C15 if tgt.miri => rng.range(2, 3),
        Profile::C15 => rng.range(2, 4),
        Profile::C06 | Profile::C07 | Profile::C08 | Profile::C16 => *rng.pick(&[1usize, 1, 2, 3]),
        Profile::C05 | Profile::C14 | Profile::C17 => *rng.pick(&[1usize, 1, 1, 2]),
        Profile::C09 | Profile::C10 | Profile::C13 => 1,
    };
    let mut env = draw_env(&mut rng, &tgt, nthreads, matches!(profile, Profile::C15 | Profile::C06 | Profile::C16));
    if profile != Profile::C15 {
        // concurrency (racing first calls, stale reads, preemption) is C15's
        // business: elsewhere simulated threads run one after the other, so a
        // hand-off is still a move to another thread but never a race, and a
        // concurrency defect cannot raise an alarm under another property
        env.sched = Sched::Sequential;
        env.stale_pct = 0;
        env.tick_preempt = 0;
    }
    let rt_seed = rng.next_u64();
    let mut b = B {
        rng: rng.fork(),
        bufs: Vec::new(),
        threads: vec![Vec::new(); nthreads],
        next_slot: vec![0; nthreads],
        tgt,
        flush_bias: matches!(profile, Profile::C05),
    };
    let mut variants: Vec<Env> = Vec::new();
    let mut diff_kind = VKind::Config;
    match profile {
        Profile::C15 if tgt.miri => {
            // the interpreter is ~10^4 times slower and its race detector makes
            // threads dearer still: tiny episodes that are nothing but races
            let (a0, n0, h0) = inputs::byte_case(&mut b.rng, 48);
            let shared_hay = b.buf(h0, None);
            let f0 = *b.rng.pick(&[ByteFn::Find, ByteFn::Rfind, ByteFn::Count]);
            for t in 0..nthreads {
                let mut n = n0;
                n[0] = n[0].wrapping_add(t as u8);
                let arity = if matches!(f0, ByteFn::Count) { 1 } else { a0 };
                b.push(t, Op::Byte { be: Backend::Top, f: f0, arity, n, hay: shared_hay, raw: RawForm::Slice });
                if b.rng.chance(1, 2) {
                    b.scn_byte_oneshots(t, 1, true, false, 40);
                }
            }
            match b.rng.below(10) {
                0 | 1 => b.scn_shared_finder_race(40, 40, 2),
                2 | 3 => b.scn_copy_vs_first_use(),
                4 | 5 | 6 => b.scn_concurrent_construction(),
                7 | 8 => {
                    let k = b.rng.range(1, 2);
                    b.scn_shared_finder_hostile(150, k, 2)
                }
                _ => {}
            }
            env.dispatch = Dispatch::Fresh;
            let reference =
                Env { krate: env.krate, cpu: env.cpu, dispatch: Dispatch::Warm, sched: Sched::Sequential, stale_pct: 0, poison: 0, tick_preempt: 0 };
            variants = vec![reference, env.clone()];
            diff_kind = VKind::Schedule;
        }
        Profile::C15 => {
            // every thread starts by racing through `detect`
            let hot_slot_first = b.rng.chance(2, 3);
            let mh0 = b.max_hay(200);
            let (a0, n0, h0) = inputs::byte_case(&mut b.rng, mh0);
            let shared_hay = b.buf(h0, None);
            let f0 = *b.rng.pick(&[ByteFn::Find, ByteFn::Rfind, ByteFn::Count]);
            for t in 0..nthreads {
                if hot_slot_first {
                    // same routine (same dispatch slot), per-thread needles
                    let mut n = n0;
                    n[0] = n[0].wrapping_add(t as u8);
                    let arity = if matches!(f0, ByteFn::Count) { 1 } else { a0 };
                    b.push(t, Op::Byte { be: Backend::Top, f: f0, arity, n, hay: shared_hay, raw: RawForm::Slice });
                }
                let k = b.rng.range(0, 3);
                let mh = b.max_hay(300);
                b.scn_byte_oneshots(t, k, true, false, mh);
            }
            // shared objects
            let scen = b.rng.range(1, 3);
            for _ in 0..scen {
                let t = b.rng.usize_below(nthreads.saturating_sub(1).max(1));
                let (mh, mn) = (b.max_hay(400), 80);
                match b.rng.below(10) {
                    9 => {
                        let k = b.rng.range(1, 3);
                        let mh = b.rng.range(120, 400);
                        b.scn_shared_finder_hostile(mh, k, 2)
                    }
                    7 => b.scn_copy_vs_first_use(),
                    8 => b.scn_concurrent_construction(),
                    0 => b.scn_byte_iter(t, false, true, mh),
                    1 => b.scn_finder_reuse(t, mh, mn, false),
                    2 => b.scn_sub_iter(t, mh, mn, false),
                    3 => b.scn_byte_iter(t, true, true, mh),
                    4 => {
                        let tb = b.rng.usize_below(nthreads);
                        b.scn_related_finders(t, tb, mh)
                    }
                    _ => {
                        let k = b.rng.range(1, 4);
                        b.scn_shared_finder_race(mh, mn, k)
                    }
                }
            }
            for t in 0..nthreads {
                let k = b.rng.range(0, 2);
                let mh = b.max_hay(300);
                b.scn_byte_oneshots(t, k, true, false, mh);
                if b.rng.chance(1, 3) {
                    b.scn_memmem_oneshots(t, 1, mh, 40);
                }
            }
            if !matches!(env.dispatch, Dispatch::Fresh) && b.rng.chance(1, 2) {
                env.dispatch = Dispatch::Fresh;
            }
            // reference: the same programs, one thread after the other, on a
            // process whose dispatch cache is already warm, no faults
            let reference =
                Env { krate: env.krate, cpu: env.cpu, dispatch: Dispatch::Warm, sched: Sched::Sequential, stale_pct: 0, poison: 0, tick_preempt: 0 };
            variants = vec![reference, env.clone()];
            diff_kind = VKind::Schedule;
        }
        Profile::C06 => {
            let k = b.rng.range(1, 3);
            for _ in 0..k {
                let t = b.rng.usize_below(nthreads.saturating_sub(1).max(1));
                let mh = b.max_hay(600);
                b.scn_byte_iter(t, false, false, mh);
            }
        }
        Profile::C07 if index == 99 && !tgt.scale_small && tgt.huge => {
            // one episode per run: counts that only fit in more than 32 bits
            let len = (1u64 << 32) + 4096 + b.rng.below(4096);
            for be in [Backend::Top, Backend::Avx2, Backend::Sse2] {
                let holes: Vec<u64> = (0..b.rng.range(0, 6)).map(|i| (i as u64 + 1) * 700_000_007 % len).collect();
                b.push(0, Op::HugeCount { be, len, holes });
            }
            env.sched = Sched::Sequential;
        }
        Profile::C07 => {
            let k = b.rng.range(1, 3);
            for _ in 0..k {
                let t = b.rng.usize_below(nthreads.saturating_sub(1).max(1));
                let mh = b.max_hay(600);
                b.scn_byte_iter(t, true, false, mh);
            }
            if b.rng.chance(1, 12) {
                b.scn_big_count(0, false);
            }
            // direct One::count / count_raw on every backend
            let mh = b.max_hay(600);
            for _ in 0..b.rng_range(1, 4) {
                if b.full() {
                    break;
                }
                let (_, n, hay) = inputs::byte_case(&mut b.rng, mh);
                let hay = b.buf(hay, None);
                let be = b.byte_backend();
                let raw = if be == Backend::Top {
                    RawForm::Slice
                } else {
                    *b.rng.pick(&[RawForm::Slice, RawForm::Raw, RawForm::RawEmpty, RawForm::RawInverted])
                };
                b.push(0, Op::Byte { be, f: ByteFn::Count, arity: 1, n, hay, raw });
            }
        }
        Profile::C08 | Profile::C14 if index == 99 && !tgt.scale_small && tgt.huge => {
            // one episode per run: a search that skips more than 4 GiB
            let mut needle = vec![b'e'; 44];
            needle[0] = b'z';
            needle[1] = b'q';
            needle[43] = b'k';
            let needle = b.buf(needle, None);
            let len = (1u64 << 32) + (300 << 20);
            let at = 3u64 << 30;
            b.push(0, Op::HugeFindIter { needle, len, at });
            env.sched = Sched::Sequential;
        }
        Profile::C08 => {
            let k = b.rng.range(1, 2);
            for _ in 0..k {
                let t = b.rng.usize_below(nthreads.saturating_sub(1).max(1));
                let (mh, mn) = (b.max_hay(2048), 300);
                if b.rng.chance(1, 10) {
                    b.scn_related_finders(t, t, mh);
                } else {
                    b.scn_sub_iter(t, mh, mn, true);
                }
            }
        }
        Profile::C16
            if tgt.long_history_log2 > 0
                && (index == 77 || (tgt.long_history_log2 < 26 && index % 1_048_576 == 77)) =>
        {
            // one finder, one short haystack, a very long call history: state
            // that accumulates in the finder across searches (counters that
            // only wrap or saturate after hundreds of millions of calls) shows
            let alpha = vec![b'e', b'z', b'q'];
            let nlen = b.rng.range(33, 48);
            let mut needle = inputs::word(&mut b.rng, nlen, &alpha);
            needle[0] = b'z';
            needle[1] = b'q';
            let mut hay = inputs::word(&mut b.rng, 64, &alpha);
            hay[10] = b'z';
            hay[11] = b'q';
            let needle = b.buf(needle, None);
            let hay = b.buf(hay, None);
            // no prefilter candidate at all: the prefilter stays "effective"
            // for ever, so whatever it counts grows with every search
            let quiet = b.buf(vec![b'e'; 64], None);
            let f = b.slot(0);
            let cfg = FinderCfg { prefilter: true, ranker: Ranker::Default };
            b.push(0, Op::FinderNew { rev: false, needle, cfg, dst: f });
            let times = (1u64 << tgt.long_history_log2) + (1 << 20);
            b.push(0, Op::FinderRepeat { f, hay: quiet, times });
            b.push(0, Op::FinderRepeat { f, hay, times: 1 << tgt.long_history_log2.min(22) });
            b.push(0, Op::FinderFind { f, hay, via_ref: false });
            b.push(0, Op::FinderFind { f, hay: quiet, via_ref: false });
            b.push(0, Op::Drop { s: f });
        }
        Profile::C16 => {
            let k = b.rng.range(1, 2);
            for _ in 0..k {
                let t = b.rng.usize_below(nthreads.saturating_sub(1).max(1));
                let (mh, mn) = (b.max_hay(1200), 300);
                match b.rng.below(12) {
                    0..=5 => b.scn_finder_reuse(t, mh, mn, true),
                    6..=8 => b.scn_sub_iter(t, mh, mn, true),
                    9 => b.scn_related_finders(t, t, mh),
                    // memory that changes under a live iterator would be the
                    // harness' own aliasing bug under the interpreter
                    _ if tgt.miri => b.scn_finder_reuse(t, mh, mn, true),
                    _ => b.scn_refill(t, mh, mn),
                }
            }
        }
        Profile::C10 => {
            for _ in 0..b.rng_range(1, 3) {
                let (mh, mn) = (b.max_hay(2048), 300);
                b.scn_lockstep(0, mh, mn);
            }
        }
        Profile::C13 => {
            env.krate = Krate::Std;
            env.dispatch = Dispatch::Warm;
            env.stale_pct = 0;
            let k = if tgt.scale_small { 1 } else { b.rng_range(1, 3) };
            for _ in 0..k {
                b.scn_cost(0);
            }
        }
        Profile::C09 => {
            env.dispatch = Dispatch::Warm;
            if tgt.scale_small {
                // cross-target episodes (run under interpreters): what differs
                // between targets is the vector/SWAR byte-search code and the
                // packed-pair searcher, so spend the budget there, on short
                // haystacks (cost under Miri is per byte scanned)
                let k = b.rng_range(16, 30);
                b.scn_byte_oneshots(0, k, true, false, 96);
                b.scn_cross_backend(0, 3, 96, 40);
                b.scn_byte_iter(0, false, true, 96);
                b.scn_byte_iter(0, true, true, 96);
                b.scn_memmem_oneshots(0, 2, 160, 40);
                if b.rng.chance(2, 3) {
                    b.scn_sub_iter(0, 160, 40, false);
                } else {
                    b.scn_finder_reuse(0, 160, 40, false);
                }
            } else {
                let (mh, mn) = (b.max_hay(700), 300);
                let k = b.rng_range(2, 6);
                b.scn_byte_oneshots(0, k, true, false, mh);
                b.scn_cross_backend(0, 2, mh, mn);
                if b.rng.chance(1, 16) {
                    b.scn_big_count(0, true);
                }
                let ch = b.rng.chance(1, 2);
                b.scn_byte_iter(0, ch, true, mh);
                let k = b.rng_range(1, 3);
                b.scn_memmem_oneshots(0, k, mh, mn);
                if b.rng.chance(2, 3) {
                    b.scn_finder_reuse(0, mh, mn, false);
                }
                if b.rng.chance(2, 3) {
                    b.scn_sub_iter(0, mh, mn, false);
                }
            }
            // the finder configuration must be the default one here: this
            // property is about backends/builds, not heuristics
            for ops in b.threads.iter_mut() {
                for op in ops.iter_mut() {
                    match op {
                        Op::FinderNew { cfg, .. } => {
                            *cfg = FinderCfg { prefilter: true, ranker: Ranker::Default };
                        }
                        Op::FIterForceInert { k, .. } => *k = u32::MAX,
                        Op::ArmInert { k } => *k = u32::MAX,
                        _ => {}
                    }
                }
                // owning conversions exist only with `alloc`: after one, the
                // configurations would no longer run the same program
                ops.retain(|op| !matches!(op, Op::FIterOwn { .. } | Op::FinderOwn { .. } | Op::KillNeedle { .. }));
            }
            let cpus: &[Cpu] = if tgt.x86_64 { &[Cpu::Host, Cpu::NoAvx2, Cpu::NoSimd] } else { &[Cpu::Host] };
            for &krate in &[Krate::Std, Krate::Alloc, Krate::Core] {
                for &cpu in cpus {
                    let dispatch = if b.rng.chance(1, 2) { Dispatch::Fresh } else { Dispatch::Warm };
                    variants.push(Env { krate, cpu, dispatch, sched: Sched::Sequential, stale_pct: 0, poison: 0, tick_preempt: 0 });
                }
            }
            diff_kind = VKind::Config;
        }
        Profile::C05 | Profile::C14 | Profile::C17 => {
            if profile == Profile::C17 && env.krate == Krate::Core {
                env.krate = Krate::Alloc;
            }
            let mismatch = profile == Profile::C05;
            let raw = profile != Profile::C17;
            for t in 0..nthreads {
                let n_scen = b.rng_range(1, 4);
                for _ in 0..n_scen {
                    let long_needles = !tgt.scale_small && b.rng.chance(1, 6);
                    let (mh, mn) = (
                        b.max_hay(if profile == Profile::C05 { 4000 } else { 1500 }).max(if long_needles { 7000 } else { 0 }),
                        if long_needles { 6000 } else { 300 },
                    );
                    match b.rng.below(9) {
                        0 | 1 => {
                            let k = b.rng_range(1, 5);
                            b.scn_byte_oneshots(t, k, false, raw, mh.min(700));
                        }
                        2 => {
                            let ch = b.rng.chance(1, 3);
                            b.scn_byte_iter(t, ch, false, mh.min(700))
                        }
                        3 => {
                            let k = b.rng_range(1, 3);
                            b.scn_memmem_oneshots(t, k, mh, mn);
                        }
                        4 => b.scn_finder_reuse(t, mh, mn, true),
                        5 => b.scn_sub_iter(t, mh, mn, true),
                        6 | 7 => {
                            let k = b.rng_range(1, 5);
                            b.scn_lowlevel(t, k, mismatch, mh.min(1200), mn);
                        }
                        _ => b.scn_lockstep(t, mh.min(1200), mn),
                    }
                }
            }
        }
    }
    if profile == Profile::C05 && !tgt.miri {
        // the same episode with different bytes AROUND the caller's slices:
        // a result that changes has provably read outside them
        let mut e2 = env.clone();
        e2.poison = 1;
        variants = vec![env.clone(), e2];
        diff_kind = VKind::Trap;
    }
    if variants.is_empty() {
        variants = vec![env.clone()];
    }
    let base = Episode {
        prop: profile.name().to_string(),
        verif_seed,
        index,
        env: variants[0].clone(),
        bufs: b.bufs,
        threads: b.threads,
        rt_seed,
        choices: Vec::new(),
        replay: false,
    };
    Family { base, variants, diff_kind, choices: Vec::new(), replay: false }
}
