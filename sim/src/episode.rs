//! The explicit description of one simulated execution ("episode").
//!
//! An episode is generated from a seed by `gen.rs`, but once generated it is
//! plain data: it can be written to a replay file, edited by the minimiser
//! and executed again. Everything that is decided *while* the episode runs
//! (which simulated thread runs next, whether a dispatch load observes a stale
//! value, ...) goes through the choice log (`choices`), so a replay file plus
//! the code is an exactly repeatable execution.

use serde::{Deserialize, Serialize};

pub mod hexbytes {
    use serde::{Deserialize, Deserializer, Serializer};

    pub fn serialize<S: Serializer>(v: &Vec<u8>, s: S) -> Result<S::Ok, S::Error> {
        let mut out = String::with_capacity(v.len() * 2);
        for b in v {
            out.push_str(&format!("{:02x}", b));
        }
        s.serialize_str(&out)
    }

    pub fn deserialize<'de, D: Deserializer<'de>>(d: D) -> Result<Vec<u8>, D::Error> {
        let s = String::deserialize(d)?;
        let bs = s.as_bytes();
        if bs.len() % 2 != 0 {
            return Err(serde::de::Error::custom("odd hex length"));
        }
        let mut out = Vec::with_capacity(bs.len() / 2);
        for i in (0..bs.len()).step_by(2) {
            let h = std::str::from_utf8(&bs[i..i + 2]).map_err(serde::de::Error::custom)?;
            out.push(u8::from_str_radix(h, 16).map_err(serde::de::Error::custom)?);
        }
        Ok(out)
    }
}

/// Which compiled copy of the crate serves the episode.
#[derive(Serialize, Deserialize, Clone, Copy, Debug, PartialEq, Eq, Hash, PartialOrd, Ord)]
pub enum Krate {
    /// default features (`std`): runtime CPU detection
    Std,
    /// `alloc` only
    Alloc,
    /// no features
    Core,
}

/// The simulated CPU. Features can only be removed from what the host has.
#[derive(Serialize, Deserialize, Clone, Copy, Debug, PartialEq, Eq, Hash, PartialOrd, Ord)]
pub enum Cpu {
    Host,
    NoAvx2,
    NoSimd,
}

/// State of the dispatch cache when the simulated threads start.
#[derive(Serialize, Deserialize, Clone, Copy, Debug, PartialEq, Eq, Hash, PartialOrd, Ord)]
pub enum Dispatch {
    /// a process that has not made a call yet: every slot holds its detector
    Fresh,
    /// every slot was filled by a sequential call before the threads start
    Warm,
    /// only the slots in the bit mask were filled
    Partial(u8),
}

#[derive(Serialize, Deserialize, Clone, Copy, Debug, PartialEq, Eq, Hash)]
pub enum Sched {
    /// thread 0 to completion, then thread 1, ... (no scheduler involved)
    Sequential,
    /// uniform random choice among runnable tasks at every seam point
    Random,
    /// keep running the current task, switch with probability 1/n
    Sticky(u8),
    /// PCT-like: random priorities, `depth` priority change points
    Pct(u8),
}

#[derive(Serialize, Deserialize, Clone, Debug)]
pub struct Env {
    pub krate: Krate,
    pub cpu: Cpu,
    pub dispatch: Dispatch,
    pub sched: Sched,
    /// percentage (0..=100) of eligible dispatch loads that observe the stale
    /// initial pointer; 0 disables the fault
    pub stale_pct: u8,
    /// what the simulated memory holds AROUND the caller's slices: 0 = zero
    /// bytes, 1 = a cyclic copy of all of the episode's buffers (so that a
    /// read past a slice sees plausible needle/haystack bytes)
    #[serde(default)]
    pub poison: u8,
    /// 0: simulated threads are only preempted at the dispatch seams and
    /// hand-offs; n > 0: also inside search loops, on average every n
    /// step-clock ticks (tick seams)
    #[serde(default)]
    pub tick_preempt: u8,
}

#[derive(Serialize, Deserialize, Clone, Copy, Debug, PartialEq, Eq, Hash)]
pub enum Place {
    /// first byte is the first byte of a mapping (preceded by PROT_NONE)
    Left,
    /// last byte is the last byte of a mapping (followed by PROT_NONE)
    Right,
    /// somewhere inside, at this offset from a 64-byte boundary
    Mid(u8),
    /// at the address of an earlier buffer of at least this length: the same
    /// memory holding different bytes at different times (a read buffer that
    /// is refilled). `Op::Refill` writes this buffer's bytes there; until
    /// then, and after a `Refill` of the other one, it must not be used.
    Over(usize),
}

#[derive(Serialize, Deserialize, Clone, Debug)]
pub struct Buf {
    #[serde(with = "hexbytes")]
    pub bytes: Vec<u8>,
    pub place: Place,
}

#[derive(Serialize, Deserialize, Clone, Copy, Debug, PartialEq, Eq, Hash)]
pub enum Backend {
    /// the crate's top-level functions / iterators (runtime dispatch)
    Top,
    /// `arch::all` (SWAR / portable)
    All,
    Sse2,
    Avx2,
    Neon,
}

#[derive(Serialize, Deserialize, Clone, Copy, Debug, PartialEq, Eq, Hash)]
pub enum ByteFn {
    Find,
    Rfind,
    Count,
}

#[derive(Serialize, Deserialize, Clone, Copy, Debug, PartialEq, Eq, Hash)]
pub enum RawForm {
    /// slice API
    Slice,
    /// `*_raw(start, end)`
    Raw,
    /// `*_raw(p, p)`
    RawEmpty,
    /// `*_raw(end, start)` (start > end: must return None / 0)
    RawInverted,
}

#[derive(Serialize, Deserialize, Clone, Debug, PartialEq, Eq, Hash)]
pub enum Ranker {
    Default,
    Const(u8),
    Identity,
    Reversed,
    /// a pseudo-random table derived from this seed
    Table(u64),
    /// the needle's bytes are ranked most common (255), others 0
    NeedleCommon,
    /// the needle's bytes are ranked rarest (0), others 255
    NeedleRare,
}

#[derive(Serialize, Deserialize, Clone, Debug, PartialEq, Eq, Hash)]
pub struct FinderCfg {
    /// `Prefilter::Auto` (true) or `Prefilter::None`
    pub prefilter: bool,
    pub ranker: Ranker,
}

#[derive(Serialize, Deserialize, Clone, Copy, Debug, PartialEq, Eq, Hash)]
pub enum CmpFn {
    IsEqual,
    IsPrefix,
    IsSuffix,
}

#[derive(Serialize, Deserialize, Clone, Copy, Debug, PartialEq, Eq, Hash)]
pub enum CostFn {
    BuildFind,
    BuildRfind,
    FindIterAll,
    RfindIterAll,
    MemFind,
    MemRfind,
}

pub type Slot = usize;
pub type BufId = usize;

/// One step of a simulated caller thread. Only the crate's public API is
/// driven.
#[derive(Serialize, Deserialize, Clone, Debug)]
pub enum Op {
    // ----- one-shot byte search -------------------------------------------
    Byte { be: Backend, f: ByteFn, arity: u8, n: [u8; 3], hay: BufId, raw: RawForm },

    // ----- byte iterators ---------------------------------------------------
    IterNew { be: Backend, arity: u8, n: [u8; 3], hay: BufId, dst: Slot },
    IterNext { it: Slot },
    IterNextBack { it: Slot },
    IterHint { it: Slot },
    IterClone { it: Slot, dst: Slot },
    /// `Iterator::count(self)`: consumes the iterator in `it`
    IterCount { it: Slot },

    // ----- one-shot substring search ---------------------------------------
    Mem { rev: bool, hay: BufId, needle: BufId },

    // ----- finders ----------------------------------------------------------
    FinderNew { rev: bool, needle: BufId, cfg: FinderCfg, dst: Slot },
    /// `f.find(hay)` / `f.rfind(hay)`; with `via_ref` through `f.as_ref()`
    FinderFind { f: Slot, hay: BufId, via_ref: bool },
    FinderNeedle { f: Slot },
    /// `f.find(hay)` repeated `times` times on one long-lived finder: every
    /// answer must equal the first one and that of a fresh finder
    FinderRepeat { f: Slot, hay: BufId, times: u64 },
    FinderClone { f: Slot, dst: Slot },
    /// replace the finder in `f` by `into_owned()` of it
    FinderOwn { f: Slot },
    /// the caller frees the needle buffer (legal once nothing borrows it)
    KillNeedle { buf: BufId },
    /// the caller overwrites the memory this buffer shares with another one
    /// (`Place::Over`) with this buffer's bytes; legal while nothing borrows
    /// either of them
    Refill { buf: BufId },

    // ----- substring iterators ---------------------------------------------
    /// `f.find_iter(hay)` / `f.rfind_iter(hay)` (finder in slot `f`), or the
    /// top-level `memmem::find_iter(hay, needle)` when `f` is `None`
    FIterNew { f: Option<Slot>, rev: bool, hay: BufId, needle: BufId, dst: Slot },
    FIterNext { it: Slot },
    FIterHint { it: Slot },
    FIterClone { it: Slot, dst: Slot },
    FIterOwn { it: Slot },
    /// arm the "force the prefilter to give up" fault for the iterator's
    /// `k`-th next effectiveness check
    FIterForceInert { it: Slot, k: u32 },

    // ----- object plumbing --------------------------------------------------
    Drop { s: Slot },
    /// move the object in `s` to thread `to` (`to` > this thread)
    Send { s: Slot, to: usize },
    /// share the finder in `s` with thread `to` (both keep using the same
    /// `Finder` value concurrently through an `Arc`)
    Share { s: Slot, to: usize },
    /// take the next object sent by thread `from` (waits for it; gives up
    /// when that thread has finished)
    Recv { from: usize, dst: Slot },
    /// arm the "force the prefilter to give up" fault for this thread's next
    /// library call, at its `k`-th effectiveness check
    ArmInert { k: u32 },

    // ----- low-level public building blocks ---------------------------------
    TwoWay { rev: bool, hay: BufId, needle: BufId, needle2: Option<BufId> },
    /// `needle2`: the needle passed at search time when it differs from the
    /// construction needle (safe call, unspecified answer)
    RabinKarp { rev: bool, hay: BufId, needle: BufId, needle2: Option<BufId> },
    ShiftOr { hay: BufId, needle: BufId },
    Packed {
        be: Backend,
        pair: Option<(u8, u8)>,
        prefilter: bool,
        hay: BufId,
        needle: BufId,
        needle2: Option<BufId>,
    },
    Cmp { f: CmpFn, a: BufId, b: BufId },
    PairNew { needle: BufId, ranker: Ranker },
    PairIdx { needle: BufId, i1: u8, i2: u8 },

    // ----- multi-GiB haystacks (zero pages, a few bytes patched) -------------
    /// `count` of the byte 0 over `len` zero bytes with the bytes at `holes`
    /// set to 1: must be exactly `len - holes.len()` (counters narrower than
    /// usize wrap at 2^32)
    HugeCount { be: Backend, len: u64, holes: Vec<u64> },
    /// `find_iter` over `len` zero bytes with `needle` planted at `at`: must
    /// yield `at` and then None (totals kept in 32 bits overflow past 4 GiB)
    HugeFindIter { needle: BufId, len: u64, at: u64 },

    // ----- composite operations --------------------------------------------
    /// C09: the same byte search on every backend type available in this
    /// build/CPU (top-level, `arch::all`, SSE2, AVX2, NEON); all must agree
    ByteAll { f: ByteFn, arity: u8, n: [u8; 3], hay: BufId },
    /// C09: packed-pair `find` on every vector backend available; all must
    /// agree (only when the haystack is long enough for each)
    PackedAll { hay: BufId, needle: BufId },
    /// C10: build one finder per configuration and drive all of them in
    /// lock-step over `hays` (`iter`: full `find_iter` traversal instead of
    /// `find`). `inert_at[i]`: force finder i's prefilter to give up at its
    /// k-th effectiveness check.
    Lockstep {
        needle: BufId,
        cfgs: Vec<FinderCfg>,
        hays: Vec<BufId>,
        iter: bool,
        inert_at: Vec<Option<u32>>,
    },
    /// C13: measure the step clock across one complete operation
    Cost {
        f: CostFn,
        hay: BufId,
        needle: BufId,
        /// builder configuration for the forward finder (None: `Finder::new`)
        #[serde(default)]
        cfg: Option<FinderCfg>,
    },
}

#[derive(Serialize, Deserialize, Clone, Debug)]
pub struct Family {
    pub base: Episode,
    /// environments under which `base` is executed; the result logs of all
    /// of them must equal the log of the first
    pub variants: Vec<Env>,
    /// the violation class of a disagreement between variants
    pub diff_kind: VKind,
    /// run-time choice log per variant; with `replay` set the executor
    /// consumes these instead of drawing fresh values (missing entries read
    /// as 0 = "nothing unusual happens")
    #[serde(default)]
    pub choices: Vec<Vec<u32>>,
    #[serde(default)]
    pub replay: bool,
}

#[derive(Serialize, Deserialize, Clone, Debug)]
pub struct Episode {
    /// profile (property id) this episode was generated for
    pub prop: String,
    pub verif_seed: u64,
    pub index: u64,
    pub env: Env,
    pub bufs: Vec<Buf>,
    pub threads: Vec<Vec<Op>>,
    /// seed of the PRNG that makes the run-time choices when `choices` is
    /// not being replayed
    pub rt_seed: u64,
    /// run-time choice log; when `replay` is set the executor consumes this
    /// list instead of drawing fresh values (missing entries read as 0)
    #[serde(default)]
    pub choices: Vec<u32>,
    #[serde(default)]
    pub replay: bool,
}

/// What an operation returned, in a platform independent form.
#[derive(Serialize, Deserialize, Clone, Debug, PartialEq, Eq)]
pub enum Res {
    None,
    Some(u64),
    Count(u64),
    Hint(u64, Option<u64>),
    Bool(bool),
    Pair(Option<(u8, u8)>),
    List(Vec<u64>),
    Bytes(#[serde(with = "hexbytes")] Vec<u8>),
    Unit,
    /// the operation could not run (empty slot, unsupported backend, ...)
    Skip,
    Panic(String),
    /// unspecified-by-contract result: logged but never compared
    Unspecified,
}

impl Res {
    pub fn opt(x: Option<usize>) -> Res {
        match x {
            None => Res::None,
            Some(i) => Res::Some(i as u64),
        }
    }

    pub fn hash_into(&self, h: &mut crate::rng::Fnv) {
        match self {
            Res::None => h.u8(0),
            Res::Some(x) => {
                h.u8(1);
                h.u64(*x)
            }
            Res::Count(x) => {
                h.u8(2);
                h.u64(*x)
            }
            Res::Hint(a, b) => {
                h.u8(3);
                h.u64(*a);
                match b {
                    None => h.u8(0),
                    Some(b) => {
                        h.u8(1);
                        h.u64(*b)
                    }
                }
            }
            Res::Bool(b) => {
                h.u8(4);
                h.u8(*b as u8)
            }
            Res::Pair(p) => {
                h.u8(5);
                match p {
                    None => h.u8(0),
                    Some((a, b)) => {
                        h.u8(1);
                        h.u8(*a);
                        h.u8(*b)
                    }
                }
            }
            Res::List(v) => {
                h.u8(6);
                h.u64(v.len() as u64);
                for x in v {
                    h.u64(*x)
                }
            }
            Res::Bytes(v) => {
                h.u8(7);
                h.bytes(v)
            }
            Res::Unit => h.u8(8),
            Res::Skip => h.u8(9),
            // the text of a panic message may mention addresses; only the
            // fact that it panicked is part of the log
            Res::Panic(_) => h.u8(10),
            Res::Unspecified => h.u8(11),
        }
    }
}

/// Violation classes. Each belongs to exactly one property.
#[derive(Serialize, Deserialize, Clone, Copy, Debug, PartialEq, Eq, Hash, PartialOrd, Ord)]
pub enum VKind {
    /// C05: a load outside the caller's slices (hardware trap / Miri error)
    Trap,
    /// C06: a byte iterator call disagrees with the deque model
    ByteIter,
    /// C07: a count disagrees with the model
    Count,
    /// C08: a substring iterator call disagrees with the greedy model
    SubIter,
    /// C09: configurations disagree, or an unsupported backend was entered
    Config,
    /// C10: finders built under different heuristics disagree
    Heuristic,
    /// C13: step-clock deadline exceeded
    Deadline,
    /// C14: undocumented panic, or the documented one missing/spurious
    Panic,
    /// C15: result depends on the schedule / dispatch-cache invariant broken
    Schedule,
    /// C16: result depends on the finder's history, fork, or dead needle
    History,
    /// C17: a search path allocated
    Alloc,
    /// not owned by a claimed property (one-shot result differs from the
    /// naive model): reported as a note
    Model,
}

impl VKind {
    pub fn property(self) -> &'static str {
        match self {
            VKind::Trap => "C05",
            VKind::ByteIter => "C06",
            VKind::Count => "C07",
            VKind::SubIter => "C08",
            VKind::Config => "C09",
            VKind::Heuristic => "C10",
            VKind::Deadline => "C13",
            VKind::Panic => "C14",
            VKind::Schedule => "C15",
            VKind::History => "C16",
            VKind::Alloc => "C17",
            VKind::Model => "-",
        }
    }
}

#[derive(Serialize, Deserialize, Clone, Debug)]
pub struct Violation {
    pub kind: VKind,
    pub thread: usize,
    pub op: usize,
    pub what: String,
}
