//! Simulated memory: where the caller's slices live.
//!
//! Natively every buffer gets a region `[PROT_NONE page][data pages][PROT_NONE
//! page]` and is copied flush against the left guard, flush against the right
//! guard, or somewhere inside. A load that leaves the slice across a flush
//! edge is a hardware trap. Under Miri every buffer is an exact-size heap
//! allocation and Miri's own checked memory is the oracle.

use crate::episode::{Buf, Place};

pub const PAGE: usize = 4096;

#[cfg(not(miri))]
mod imp {
    use super::*;

    const DATA_PAGES: usize = 12;
    /// bytes around a buffer that are (re)initialised for every episode
    const HALO: usize = 768;
    const REGION: usize = (DATA_PAGES + 2) * PAGE;
    const POOL: usize = 96;

    struct Big {
        base: *mut u8,
        len: usize,
    }

    pub struct Arena {
        base: *mut u8,
        /// regions whose data pages are currently PROT_NONE (killed needles)
        killed: Vec<usize>,
        big: Vec<Big>,
        /// (ptr, len, region index or usize::MAX for big) per buffer
        placed: Vec<(*const u8, usize, usize)>,
    }

    unsafe impl Send for Arena {}
    unsafe impl Sync for Arena {}

    impl Arena {
        pub fn new() -> Arena {
            unsafe {
                let total = POOL * REGION;
                let base = libc::mmap(
                    core::ptr::null_mut(),
                    total,
                    libc::PROT_NONE,
                    libc::MAP_PRIVATE | libc::MAP_ANONYMOUS,
                    -1,
                    0,
                );
                assert!(base != libc::MAP_FAILED, "mmap failed");
                let base = base as *mut u8;
                for r in 0..POOL {
                    let data = base.add(r * REGION + PAGE);
                    let rc = libc::mprotect(
                        data as *mut libc::c_void,
                        DATA_PAGES * PAGE,
                        libc::PROT_READ | libc::PROT_WRITE,
                    );
                    assert_eq!(rc, 0, "mprotect failed");
                }
                Arena { base, killed: Vec::new(), big: Vec::new(), placed: Vec::new() }
            }
        }

        /// Lowest and highest address of the pool (for classifying faults).
        pub fn span(&self) -> (usize, usize) {
            (self.base as usize, self.base as usize + POOL * REGION)
        }

        pub fn capacity() -> usize {
            POOL
        }

        fn reset(&mut self) {
            unsafe {
                for &r in &self.killed {
                    let data = self.base.add(r * REGION + PAGE);
                    libc::mprotect(
                        data as *mut libc::c_void,
                        DATA_PAGES * PAGE,
                        libc::PROT_READ | libc::PROT_WRITE,
                    );
                }
                self.killed.clear();
                for b in self.big.drain(..) {
                    libc::munmap(b.base as *mut libc::c_void, b.len);
                }
            }
            self.placed.clear();
        }

        /// Lay out the episode's buffers. `poison` selects what surrounds them.
        pub fn load(&mut self, bufs: &[Buf], poison: u8) {
            self.reset();
            let mut next_region = 0;
            let mut pattern: Vec<u8> = Vec::new();
            if poison == 1 {
                for b in bufs {
                    pattern.extend_from_slice(&b.bytes);
                    if pattern.len() >= DATA_PAGES * PAGE {
                        break;
                    }
                }
                if pattern.is_empty() {
                    pattern.push(0xAA);
                }
            }
            for b in bufs {
                let len = b.bytes.len();
                if let Place::Over(j) = b.place {
                    // shares the memory of buffer j, which keeps its own
                    // bytes until a Refill
                    let (p, plen, _) = self.placed[j];
                    assert!(len <= plen, "Place::Over target too short");
                    self.placed.push((p, len, usize::MAX));
                    continue;
                }
                if len <= DATA_PAGES * PAGE - 128 && next_region < POOL {
                    let r = next_region;
                    next_region += 1;
                    unsafe {
                        let data = self.base.add(r * REGION + PAGE);
                        let p = match b.place {
                            Place::Left => data,
                            Place::Right => data.add(DATA_PAGES * PAGE - len),
                            Place::Mid(k) => data.add(64 + (k as usize % 64)),
                            Place::Over(_) => unreachable!(),
                        };
                        // (re)initialise what surrounds the buffer: a fixed halo,
                        // so that a moderate over-read sees episode-determined
                        // bytes (determinism) at a bounded cost per episode
                        let lo = (p as usize).saturating_sub(HALO).max(data as usize);
                        let hi = ((p as usize) + len + HALO).min(data as usize + DATA_PAGES * PAGE);
                        if poison == 1 {
                            let mut off = lo;
                            while off < hi {
                                let n = pattern.len().min(hi - off);
                                core::ptr::copy_nonoverlapping(pattern.as_ptr(), off as *mut u8, n);
                                off += n;
                            }
                        } else {
                            core::ptr::write_bytes(lo as *mut u8, 0, hi - lo);
                        }
                        core::ptr::copy_nonoverlapping(b.bytes.as_ptr(), p, len);
                        self.placed.push((p as *const u8, len, r));
                    }
                } else {
                    // too big for a pooled region: its own mapping, still with
                    // guard pages on both sides
                    unsafe {
                        let pages = (len + 128 + PAGE - 1) / PAGE;
                        let total = (pages + 2) * PAGE;
                        let base = libc::mmap(
                            core::ptr::null_mut(),
                            total,
                            libc::PROT_NONE,
                            libc::MAP_PRIVATE | libc::MAP_ANONYMOUS,
                            -1,
                            0,
                        );
                        assert!(base != libc::MAP_FAILED, "mmap failed");
                        let base = base as *mut u8;
                        let data = base.add(PAGE);
                        libc::mprotect(
                            data as *mut libc::c_void,
                            pages * PAGE,
                            libc::PROT_READ | libc::PROT_WRITE,
                        );
                        let p = match b.place {
                            Place::Left => data,
                            Place::Right => data.add(pages * PAGE - len),
                            Place::Mid(k) => data.add(64 + (k as usize % 64)),
                            Place::Over(_) => unreachable!(),
                        };
                        core::ptr::copy_nonoverlapping(b.bytes.as_ptr(), p, len);
                        self.big.push(Big { base, len: total });
                        self.placed.push((p as *const u8, len, usize::MAX));
                    }
                }
            }
        }

        /// The caller's view of buffer `i`. The lifetime is a lie that the
        /// executor upholds: no slice is used after the arena is reloaded.
        pub fn slice(&self, i: usize) -> &'static [u8] {
            let (p, len, _) = self.placed[i];
            unsafe { core::slice::from_raw_parts(p, len) }
        }

        /// The caller overwrites the memory of buffer `i` with `bytes`.
        pub fn refill(&mut self, i: usize, bytes: &[u8]) {
            let (p, len, _) = self.placed[i];
            assert!(bytes.len() == len);
            unsafe { core::ptr::copy_nonoverlapping(bytes.as_ptr(), p as *mut u8, len) }
        }

        /// The caller frees buffer `i`: its pages become inaccessible.
        pub fn kill(&mut self, i: usize) -> bool {
            let (_, _, r) = self.placed[i];
            if r == usize::MAX {
                return false;
            }
            unsafe {
                let data = self.base.add(r * REGION + PAGE);
                libc::mprotect(data as *mut libc::c_void, DATA_PAGES * PAGE, libc::PROT_NONE);
            }
            self.killed.push(r);
            true
        }

        pub fn is_guard_fault(&self, addr: usize) -> bool {
            let (lo, hi) = self.span();
            if addr >= lo && addr < hi {
                return true;
            }
            self.big.iter().any(|b| addr >= b.base as usize && addr < b.base as usize + b.len)
        }
    }
}

#[cfg(miri)]
mod imp {
    use super::*;

    extern "Rust" {
        fn miri_alloc(size: usize, align: usize) -> *mut u8;
        fn miri_dealloc(ptr: *mut u8, size: usize, align: usize);
    }

    pub struct Arena {
        /// raw boxes (null once killed); raw so that handing out slices does
        /// not conflict with Box's uniqueness
        ptrs: Vec<(*mut u8, usize, bool)>,
    }

    unsafe impl Send for Arena {}
    unsafe impl Sync for Arena {}

    impl Arena {
        pub fn new() -> Arena {
            Arena { ptrs: Vec::new() }
        }
        pub fn span(&self) -> (usize, usize) {
            (0, 0)
        }
        pub fn capacity() -> usize {
            usize::MAX
        }
        fn free(p: *mut u8, len: usize) {
            unsafe {
                if len == 0 {
                    drop(Box::from_raw(core::ptr::slice_from_raw_parts_mut(p, len)));
                } else {
                    miri_dealloc(p, len, 1);
                }
            }
        }
        pub fn load(&mut self, bufs: &[Buf], _poison: u8) {
            for &(p, len, live) in &self.ptrs {
                if live {
                    Arena::free(p, len);
                }
            }
            self.ptrs.clear();
            for b in bufs {
                let len = b.bytes.len();
                if len == 0 {
                    let bx: Box<[u8]> = Vec::new().into_boxed_slice();
                    self.ptrs.push((Box::into_raw(bx) as *mut u8, 0, true));
                    continue;
                }
                // The interpreter's own allocation primitive, not the global
                // allocator: that one ends in the `malloc` shim, whose blocks
                // are 16-byte aligned, and a haystack that always starts on a
                // 16-byte boundary hides every over-read in front of an
                // unaligned start (seeded change C05-L). These blocks have
                // alignment 1 and an address drawn from the interpreter's
                // seeded generator.
                unsafe {
                    let raw = miri_alloc(len, 1);
                    core::ptr::copy_nonoverlapping(b.bytes.as_ptr(), raw, len);
                    self.ptrs.push((raw, len, true));
                }
            }
        }
        pub fn refill(&mut self, i: usize, bytes: &[u8]) {
            let (p, len, _) = self.ptrs[i];
            assert!(bytes.len() == len);
            unsafe { core::ptr::copy_nonoverlapping(bytes.as_ptr(), p, len) }
        }
        pub fn slice(&self, i: usize) -> &'static [u8] {
            let (p, len, _) = self.ptrs[i];
            unsafe { core::slice::from_raw_parts(p as *const u8, len) }
        }
        pub fn kill(&mut self, i: usize) -> bool {
            // really free it: a later use is a use-after-free Miri reports
            let (p, len, live) = self.ptrs[i];
            if live {
                Arena::free(p, len);
                self.ptrs[i].2 = false;
            }
            true
        }
        pub fn is_guard_fault(&self, _addr: usize) -> bool {
            false
        }
    }

    impl Drop for Arena {
        fn drop(&mut self) {
            for &(p, len, live) in &self.ptrs {
                if live {
                    Arena::free(p, len);
                }
            }
        }
    }
}

pub use imp::Arena;

/// A multi-GiB zero-filled mapping (untouched pages cost no memory) with a few
/// bytes written. Native only.
#[cfg(not(miri))]
pub struct Huge {
    base: *mut u8,
    total: usize,
    pub len: usize,
}

#[cfg(not(miri))]
impl Huge {
    pub fn new(len: usize) -> Option<Huge> {
        unsafe {
            let total = len + 2 * PAGE;
            let base = libc::mmap(
                core::ptr::null_mut(),
                total,
                libc::PROT_READ | libc::PROT_WRITE,
                libc::MAP_PRIVATE | libc::MAP_ANONYMOUS | libc::MAP_NORESERVE,
                -1,
                0,
            );
            if base == libc::MAP_FAILED {
                return None;
            }
            Some(Huge { base: base as *mut u8, total, len })
        }
    }
    pub fn write(&mut self, at: usize, bytes: &[u8]) {
        assert!(at + bytes.len() <= self.len);
        unsafe { core::ptr::copy_nonoverlapping(bytes.as_ptr(), self.base.add(PAGE + at), bytes.len()) }
    }
    pub fn slice(&self) -> &'static [u8] {
        unsafe { core::slice::from_raw_parts(self.base.add(PAGE), self.len) }
    }
}

#[cfg(not(miri))]
impl Drop for Huge {
    fn drop(&mut self) {
        unsafe {
            libc::munmap(self.base as *mut libc::c_void, self.total);
        }
    }
}
