//! The simulator's scheduler for shuttle: seeded, records every decision in
//! the episode's choice log, and replays a given log.
//!
//! Encoding of one decision (so that `0` always means "nothing unusual"):
//! when the current task is still runnable, `0` = keep running it and `k` =
//! switch to the k-th other runnable task (ascending task id); when it is not
//! (blocked or finished), the value indexes the runnable tasks directly.

#![cfg(feature = "shuttle")]

use crate::episode::Sched;
use crate::world::world;
use shuttle::scheduler::{Schedule, Scheduler, Task, TaskId};

pub struct OnceSched {
    started: bool,
    strategy: Sched,
    replaying: bool,
    /// PCT: priority per task id (higher runs first), assigned lazily
    prio: Vec<u64>,
    change_points: Vec<u64>,
    step: u64,
    next_low: u64,
}

impl OnceSched {
    pub fn new(strategy: Sched, replaying: bool) -> OnceSched {
        OnceSched {
            started: false,
            strategy,
            replaying,
            prio: Vec::new(),
            change_points: Vec::new(),
            step: 0,
            next_low: 0,
        }
    }
}

impl Scheduler for OnceSched {
    fn new_execution(&mut self) -> Option<Schedule> {
        if self.started {
            return None;
        }
        self.started = true;
        if let (Sched::Pct(depth), Some(w), false) = (self.strategy, world(), self.replaying) {
            let mut ch = w.choices.lock().unwrap();
            // change points drawn over a horizon typical for our episodes
            for _ in 1..depth.max(1) {
                self.change_points.push(ch.raw_u64() % 64);
            }
            self.next_low = 0;
        }
        Some(Schedule::new(0))
    }

    fn next_task(
        &mut self,
        runnable: &[&Task],
        current: Option<TaskId>,
        _is_yielding: bool,
    ) -> Option<TaskId> {
        let w = world()?;
        let mut ids: Vec<usize> = runnable.iter().map(|t| usize::from(t.id())).collect();
        ids.sort_unstable();
        self.step += 1;
        let cur = current.map(usize::from);
        let cur_runnable = cur.filter(|c| ids.contains(c));
        let chosen = if ids.len() == 1 {
            ids[0]
        } else {
            let n = ids.len() as u32;
            let others: Vec<usize> = ids.iter().copied().filter(|&i| Some(i) != cur_runnable).collect();
            let decode = |v: u32| -> usize {
                match cur_runnable {
                    Some(c) => {
                        if v == 0 {
                            c
                        } else {
                            others[(v as usize - 1) % others.len()]
                        }
                    }
                    None => ids[v as usize % ids.len()],
                }
            };
            let mut ch = w.choices.lock().unwrap();
            if self.replaying {
                decode(ch.choose(n, None))
            } else {
                match self.strategy {
                    Sched::Sequential | Sched::Random => decode(ch.choose(n, None)),
                    Sched::Sticky(d) => {
                        let d = d.max(2) as u64;
                        if cur_runnable.is_some() {
                            decode(ch.choose(n, Some((d - 1, d))))
                        } else {
                            decode(ch.choose(n, None))
                        }
                    }
                    Sched::Pct(_) => {
                        // lazily give every task a random priority
                        let max_id = *ids.last().unwrap();
                        while self.prio.len() <= max_id {
                            let p = 1_000 + (ch.raw_u64() % 1_000_000);
                            self.prio.push(p);
                        }
                        if self.change_points.contains(&self.step) {
                            if let Some(c) = cur_runnable {
                                self.prio[c] = self.next_low;
                                self.next_low += 1;
                            }
                        }
                        let target = *ids.iter().max_by_key(|&&i| (self.prio[i], usize::MAX - i)).unwrap();
                        // log the decision in the common encoding
                        let v = match cur_runnable {
                            Some(c) if c == target => 0,
                            Some(_) => 1 + others.iter().position(|&o| o == target).unwrap() as u32,
                            None => ids.iter().position(|&o| o == target).unwrap() as u32,
                        };
                        ch.log.push(v);
                        target
                    }
                }
            }
        };
        {
            let mut st = w.stats.lock().unwrap();
            st.sched_steps += 1;
            if cur.is_some() && cur != Some(chosen) {
                st.context_switches += 1;
            }
        }
        Some(TaskId::from(chosen))
    }

    fn next_u64(&mut self) -> u64 {
        match world() {
            Some(w) => w.choices.lock().unwrap().raw_u64(),
            None => 0,
        }
    }
}
