//! Shrinks a failing replay file while the same violation class persists.
//! Every candidate is executed in a fresh process (`memsim replay`), because a
//! violation may be a hardware trap that kills the process.

use crate::episode::*;
use std::process::Command;

#[derive(Clone, Debug, PartialEq, Eq)]
enum Verdict {
    Clean,
    Trap,
    Kinds(Vec<VKind>),
    Hang,
    Invalid,
}

struct Runner {
    exe: std::path::PathBuf,
    scratch: std::path::PathBuf,
    runs: usize,
    also_model: bool,
}

impl Runner {
    fn run(&mut self, fam: &Family) -> Verdict {
        self.runs += 1;
        let path = self.scratch.join(format!("cand-{}.json", std::process::id()));
        std::fs::write(&path, serde_json::to_vec(fam).unwrap()).unwrap();
        let mut cmd = Command::new(&self.exe);
        cmd.arg("replay").arg(&path);
        if self.also_model {
            cmd.arg("--also-model");
        }
        let mut child = match cmd
            .stdout(std::process::Stdio::piped())
            .stderr(std::process::Stdio::null())
            .spawn()
        {
            Ok(c) => c,
            Err(_) => return Verdict::Invalid,
        };
        // bounded wait
        let start = std::time::Instant::now();
        loop {
            match child.try_wait() {
                Ok(Some(_)) => break,
                Ok(None) => {
                    if start.elapsed().as_secs() > 20 {
                        let _ = child.kill();
                        let _ = child.wait();
                        let _ = std::fs::remove_file(&path);
                        return Verdict::Hang;
                    }
                    std::thread::sleep(std::time::Duration::from_millis(1));
                }
                Err(_) => return Verdict::Invalid,
            }
        }
        let out = child.wait_with_output().unwrap();
        let _ = std::fs::remove_file(&path);
        match out.status.code() {
            Some(0) => Verdict::Clean,
            Some(77) => Verdict::Trap,
            Some(1) => {
                let text = String::from_utf8_lossy(&out.stdout);
                let v: serde_json::Value = match serde_json::from_str(text.trim()) {
                    Ok(v) => v,
                    Err(_) => return Verdict::Invalid,
                };
                let mut kinds = Vec::new();
                if let Some(list) = v["violations"].as_array() {
                    for item in list {
                        if let Ok(k) = serde_json::from_value::<VKind>(item[1]["kind"].clone()) {
                            if !kinds.contains(&k) {
                                kinds.push(k);
                            }
                        }
                    }
                }
                Verdict::Kinds(kinds)
            }
            _ => Verdict::Invalid,
        }
    }
}

fn same(target: &Verdict, got: &Verdict) -> bool {
    match (target, got) {
        (Verdict::Trap, Verdict::Trap) => true,
        (Verdict::Hang, Verdict::Hang) => true,
        (Verdict::Kinds(t), Verdict::Kinds(g)) => !t.is_empty() && g.contains(&t[0]),
        _ => false,
    }
}

fn total_ops(f: &Family) -> usize {
    f.base.threads.iter().map(|t| t.len()).sum()
}

pub fn cmd_minimise(args: &[String]) -> i32 {
    let path = args.get(0).expect("minimise <file> --out <file>");
    let out = args.iter().position(|a| a == "--out").and_then(|i| args.get(i + 1)).expect("--out");
    let budget: usize = args
        .iter()
        .position(|a| a == "--budget")
        .and_then(|i| args.get(i + 1))
        .map(|s| s.parse().unwrap())
        .unwrap_or(800);
    let text = std::fs::read_to_string(path).expect("read");
    let mut fam: Family = match serde_json::from_str(&text) {
        Ok(f) => f,
        Err(e) => {
            eprintln!("memsim: malformed replay file: {}", e);
            return 2;
        }
    };
    fam.replay = true;
    let scratch = std::path::Path::new(out).parent().unwrap_or(std::path::Path::new(".")).to_path_buf();
    let also_model = args.iter().any(|a| a == "--also-model");
    let mut r = Runner { exe: std::env::current_exe().unwrap(), scratch, runs: 0, also_model };
    let wall = std::time::Instant::now();
    let target = r.run(&fam);
    let first_run_s = wall.elapsed().as_secs_f64();
    // wall-clock budget for the whole minimisation; an episode that takes
    // seconds by itself (long-history, cost) is not worth hundreds of replays
    let time_budget_s: f64 = 150.0;
    if first_run_s > 4.0 {
        eprintln!("memsim: one replay takes {:.1}s; not minimising", first_run_s);
        std::fs::write(out, serde_json::to_vec_pretty(&fam).unwrap()).unwrap();
        return if matches!(target, Verdict::Clean | Verdict::Invalid) { 3 } else { 0 };
    }
    if matches!(target, Verdict::Clean | Verdict::Invalid) {
        eprintln!("memsim: the replay file does not fail ({:?}); nothing to minimise", target);
        std::fs::write(out, serde_json::to_vec_pretty(&fam).unwrap()).unwrap();
        return 3;
    }
    let before = (total_ops(&fam), fam.base.bufs.iter().map(|b| b.bytes.len()).sum::<usize>());
    let mut progress = true;
    while progress && r.runs < budget && wall.elapsed().as_secs_f64() < time_budget_s {
        progress = false;
        // 1. drop variants that are not needed
        if fam.variants.len() > 2 {
            for vi in (1..fam.variants.len()).rev() {
                if fam.variants.len() <= 2 {
                    break;
                }
                let mut c = fam.clone();
                c.variants.remove(vi);
                if vi < c.choices.len() {
                    c.choices.remove(vi);
                }
                if same(&target, &r.run(&c)) {
                    fam = c;
                    progress = true;
                }
            }
        }
        // 2. empty whole threads
        for t in (0..fam.base.threads.len()).rev() {
            if fam.base.threads[t].is_empty() {
                continue;
            }
            let mut c = fam.clone();
            c.base.threads[t].clear();
            if same(&target, &r.run(&c)) {
                fam = c;
                progress = true;
            }
        }
        // 3. drop operations: chunks, then single ops
        for t in 0..fam.base.threads.len() {
            let mut chunk = (fam.base.threads[t].len() / 2).max(1);
            loop {
                let mut i = 0;
                while i < fam.base.threads[t].len() && r.runs < budget {
                    let mut c = fam.clone();
                    let end = (i + chunk).min(c.base.threads[t].len());
                    // a Refill is what makes the memory hold the bytes the
                    // model assumes: without it the episode is another one
                    if c.base.threads[t][i..end].iter().any(|op| matches!(op, Op::Refill { .. })) {
                        i += chunk;
                        continue;
                    }
                    c.base.threads[t].drain(i..end);
                    if same(&target, &r.run(&c)) {
                        fam = c;
                        progress = true;
                    } else {
                        i += chunk;
                    }
                }
                if chunk == 1 {
                    break;
                }
                chunk = (chunk / 2).max(1);
            }
        }
        // 4. simplify the environment of every variant
        for vi in 0..fam.variants.len() {
            let tries: Vec<Box<dyn Fn(&mut Env)>> = vec![
                Box::new(|e| e.stale_pct = 0),
                Box::new(|e| e.dispatch = Dispatch::Warm),
                Box::new(|e| e.cpu = Cpu::Host),
                Box::new(|e| e.krate = Krate::Std),
                Box::new(|e| e.sched = Sched::Sequential),
            ];
            for f in tries {
                let mut c = fam.clone();
                let before = format!("{:?}", c.variants[vi]);
                f(&mut c.variants[vi]);
                if format!("{:?}", c.variants[vi]) == before {
                    continue;
                }
                if same(&target, &r.run(&c)) {
                    fam = c;
                    progress = true;
                }
            }
        }
        // 5. the choice logs: all-zero, shorter, fewer non-zero entries
        for vi in 0..fam.choices.len() {
            if fam.choices[vi].iter().all(|&c| c == 0) && !fam.choices[vi].is_empty() {
                let mut c = fam.clone();
                c.choices[vi].clear();
                if same(&target, &r.run(&c)) {
                    fam = c;
                    progress = true;
                }
                continue;
            }
            let mut c = fam.clone();
            c.choices[vi].clear();
            if !fam.choices[vi].is_empty() && same(&target, &r.run(&c)) {
                fam = c;
                progress = true;
                continue;
            }
            // truncate
            let mut len = fam.choices[vi].len();
            while len > 0 && r.runs < budget {
                let mut c = fam.clone();
                c.choices[vi].truncate(len / 2);
                if same(&target, &r.run(&c)) {
                    fam = c;
                    progress = true;
                    len /= 2;
                } else {
                    break;
                }
            }
            // zero single entries (fewer context switches / faults)
            if fam.choices[vi].len() <= 64 {
                for i in 0..fam.choices[vi].len() {
                    if fam.choices[vi][i] == 0 || r.runs >= budget {
                        continue;
                    }
                    let mut c = fam.clone();
                    c.choices[vi][i] = 0;
                    if same(&target, &r.run(&c)) {
                        fam = c;
                        progress = true;
                    }
                }
            }
        }
        // 6. shrink buffers and simplify their placement
        for b in 0..fam.base.bufs.len() {
            if r.runs >= budget {
                break;
            }
            // buffers that share memory keep their length and place
            let shared = matches!(fam.base.bufs[b].place, Place::Over(_))
                || fam.base.bufs.iter().any(|x| x.place == Place::Over(b));
            if shared {
                continue;
            }
            loop {
                let len = fam.base.bufs[b].bytes.len();
                if len == 0 || r.runs >= budget {
                    break;
                }
                let mut done = true;
                // cut the tail, then the head
                for head in [false, true] {
                    let mut c = fam.clone();
                    let keep = len / 2;
                    if head {
                        c.base.bufs[b].bytes.drain(0..len - keep);
                    } else {
                        c.base.bufs[b].bytes.truncate(keep);
                    }
                    if same(&target, &r.run(&c)) {
                        fam = c;
                        progress = true;
                        done = false;
                        break;
                    }
                }
                if done {
                    // single byte off either end
                    if len > 1 {
                        let mut c = fam.clone();
                        c.base.bufs[b].bytes.truncate(len - 1);
                        if same(&target, &r.run(&c)) {
                            fam = c;
                            progress = true;
                            continue;
                        }
                        let mut c = fam.clone();
                        c.base.bufs[b].bytes.remove(0);
                        if same(&target, &r.run(&c)) {
                            fam = c;
                            progress = true;
                            continue;
                        }
                    }
                    break;
                }
            }
            if fam.base.bufs[b].place != Place::Mid(0) {
                let mut c = fam.clone();
                c.base.bufs[b].place = Place::Mid(0);
                if same(&target, &r.run(&c)) {
                    fam = c;
                    progress = true;
                }
            }
        }
    }
    let after = (total_ops(&fam), fam.base.bufs.iter().map(|b| b.bytes.len()).sum::<usize>());
    eprintln!(
        "memsim: minimised {} ops / {} buffer bytes -> {} ops / {} buffer bytes in {} replays (target {:?})",
        before.0, before.1, after.0, after.1, r.runs, target
    );
    std::fs::write(out, serde_json::to_vec_pretty(&fam).unwrap()).unwrap();
    0
}
