//! Input families. There is no way to call a search routine without inputs,
//! so they are generated -- but the properties are decided along the
//! simulator's seams (schedule, history, CPU, placement, allocator, clock),
//! not by this generator.

use crate::rng::Rng;

pub const EDGE_LENS: [usize; 40] = [
    0, 1, 2, 3, 4, 5, 7, 8, 9, 15, 16, 17, 23, 24, 31, 32, 33, 47, 48, 49, 63, 64, 65, 79, 80, 95, 96, 97, 127,
    128, 129, 143, 160, 191, 192, 193, 255, 256, 257, 300,
];

pub fn len_biased(rng: &mut Rng, max: usize) -> usize {
    let l = match rng.below(10) {
        0..=4 => *rng.pick(&EDGE_LENS),
        5..=6 => rng.range(0, 40),
        7..=8 => rng.range(0, max.min(700)),
        _ => rng.range(0, max),
    };
    l.min(max)
}

pub fn alphabet(rng: &mut Rng) -> Vec<u8> {
    match rng.below(14) {
        // text-like: the bytes the default frequency table ranks most common
        12 => vec![b' ', b'e', b't', b'a', b'o'],
        13 => vec![b' ', b'e', b't', 0xC3, 0xA9, 0xE2],
        0..=2 => vec![b'a'],
        3..=5 => vec![b'a', b'b'],
        6..=7 => vec![b'a', b'b', b'c'],
        8 => vec![b'a', b'b', b'c', b'd'],
        // bytes that collide modulo 64 (Two-Way's approximate byte set)
        9 => vec![b'a', b'a' + 64, b'a' - 64, b'b'],
        10 => vec![0x00, 0x80, 0xFF, 0x7F],
        _ => (0..=255u8).collect(),
    }
}

fn fibonacci_word(len: usize, a: u8, b: u8) -> Vec<u8> {
    let mut x = vec![a];
    let mut y = vec![a, b];
    while y.len() < len {
        let mut z = y.clone();
        z.extend_from_slice(&x);
        x = y;
        y = z;
    }
    y.truncate(len);
    y
}

fn thue_morse(len: usize, a: u8, b: u8) -> Vec<u8> {
    (0..len).map(|i| if (i as u64).count_ones() % 2 == 0 { a } else { b }).collect()
}

pub fn word(rng: &mut Rng, len: usize, alpha: &[u8]) -> Vec<u8> {
    (0..len).map(|_| *rng.pick(alpha)).collect()
}

/// A structured string of exactly `len` bytes.
pub fn structured(rng: &mut Rng, len: usize, alpha: &[u8]) -> Vec<u8> {
    if len == 0 {
        return Vec::new();
    }
    let a = alpha[0];
    let b = if alpha.len() > 1 { alpha[1] } else { alpha[0].wrapping_add(1) };
    match rng.below(9) {
        0 => word(rng, len, alpha),
        1 => vec![a; len],
        2 => {
            // u^k
            let p = rng.range(1, len.min(12).max(1));
            let u = word(rng, p, alpha);
            (0..len).map(|i| u[i % p]).collect()
        }
        3 => {
            // u^k v
            let p = rng.range(1, len.min(9).max(1));
            let u = word(rng, p, alpha);
            let tail = rng.range(0, len.min(6));
            let mut s: Vec<u8> = (0..len - tail).map(|i| u[i % p]).collect();
            s.extend(word(rng, tail, alpha));
            s
        }
        4 => fibonacci_word(len, a, b),
        5 => thue_morse(len, a, b),
        6 => {
            // a^(k) b a^(k) b ...
            let k = rng.range(1, 40);
            (0..len).map(|i| if i % (k + 1) == k { b } else { a }).collect()
        }
        7 => {
            // mostly one letter, a few others
            let mut s = vec![a; len];
            for _ in 0..rng.range(0, 4) {
                let i = rng.usize_below(len);
                s[i] = *rng.pick(alpha);
            }
            s
        }
        _ => {
            // runs
            let mut s = Vec::with_capacity(len);
            while s.len() < len {
                let c = *rng.pick(alpha);
                let r = rng.range(1, 20);
                for _ in 0..r {
                    if s.len() < len {
                        s.push(c);
                    }
                }
            }
            s
        }
    }
}

pub fn needle_len(rng: &mut Rng, max: usize) -> usize {
    // now and then a really long needle (kilobytes), where the caller allows it
    if max >= 1024 && rng.chance(1, 24) {
        return rng.range(1024, max);
    }
    let l = match rng.below(20) {
        0 => 0,
        1..=2 => 1,
        3..=9 => rng.range(2, 8),
        10..=13 => rng.range(9, 32),
        14..=16 => rng.range(33, 70),
        17..=18 => rng.range(71, 300),
        _ => *rng.pick(&[2usize, 15, 16, 17, 31, 32, 33, 34, 63, 64, 65, 254, 255, 256, 257, 300]),
    };
    l.min(max)
}

/// A (needle, haystack) pair from one of the families of C03/C08/C13.
pub fn sub_pair(rng: &mut Rng, max_hay: usize, max_needle: usize) -> (Vec<u8>, Vec<u8>) {
    let alpha = alphabet(rng);
    let hlen = len_biased(rng, max_hay);
    let mut hay = structured(rng, hlen, &alpha);
    let nlen = needle_len(rng, max_needle);
    let needle: Vec<u8> = match rng.below(10) {
        // cut out of the haystack (guaranteed match)
        0..=3 if hlen >= nlen && nlen > 0 => {
            let at = rng.range(0, hlen - nlen);
            hay[at..at + nlen].to_vec()
        }
        // structured on its own (periodic etc.)
        4..=6 => structured(rng, nlen, &alpha),
        // random over the alphabet
        7..=8 => word(rng, nlen, &alpha),
        // contains a byte foreign to the haystack's alphabet
        _ => {
            let mut n = structured(rng, nlen, &alpha);
            if !n.is_empty() {
                let i = rng.usize_below(n.len());
                n[i] = b'#';
            }
            n
        }
    };
    // a haystack built out of the needle itself: copies, copies with one
    // byte spoiled (near matches, back to back), prefixes, suffixes, filler
    if needle.len() >= 2 && rng.chance(1, 4) {
        let mut h: Vec<u8> = Vec::with_capacity(hlen + needle.len());
        while h.len() < hlen {
            match rng.below(8) {
                0 | 1 => h.extend_from_slice(&needle),
                2 | 3 | 4 => {
                    let mut c = needle.clone();
                    let i = match rng.below(3) {
                        0 => rng.usize_below((c.len() / 2).max(1)),
                        1 => c.len() - 1 - rng.usize_below((c.len() / 2).max(1)),
                        _ => rng.usize_below(c.len()),
                    };
                    c[i] = if rng.chance(1, 2) { c[i].wrapping_add(1) } else { *rng.pick(&alpha) };
                    h.extend_from_slice(&c);
                }
                5 => {
                    let k = rng.range(1, needle.len());
                    h.extend_from_slice(&needle[..k]);
                }
                6 => {
                    let k = rng.range(1, needle.len());
                    h.extend_from_slice(&needle[needle.len() - k..]);
                }
                _ => {
                    let k = rng.range(1, 12);
                    let filler = word(rng, k, &alpha);
                    h.extend_from_slice(&filler);
                }
            }
        }
        h.truncate(hlen.max(needle.len().min(max_hay)));
        return (needle, h);
    }
    // plant copies / near misses
    if !needle.is_empty() && hay.len() >= needle.len() {
        let plants = match rng.below(6) {
            0..=1 => 0,
            2..=3 => 1,
            4 => rng.range(2, 5),
            _ => rng.range(5, 40),
        };
        for _ in 0..plants {
            let at = match rng.below(4) {
                0 => 0,
                1 => hay.len() - needle.len(),
                _ => rng.range(0, hay.len() - needle.len()),
            };
            hay[at..at + needle.len()].copy_from_slice(&needle);
            if rng.chance(1, 4) {
                // near miss: spoil one byte of this copy
                let i = at + rng.usize_below(needle.len());
                hay[i] = hay[i].wrapping_add(1);
            }
        }
    }
    (needle, hay)
}

/// (arity, needles, haystack) for the byte-search routines.
pub fn byte_case(rng: &mut Rng, max_hay: usize) -> (u8, [u8; 3], Vec<u8>) {
    let alpha = alphabet(rng);
    let hlen = len_biased(rng, max_hay);
    let mut hay = structured(rng, hlen, &alpha);
    let arity = 1 + rng.below(3) as u8;
    let special = [0x00u8, 0x80, 0xFF, b'a', b'b', b'#', b'\n'];
    let mut n = [0u8; 3];
    for x in n.iter_mut() {
        *x = match rng.below(4) {
            0 => *rng.pick(&special),
            1 => rng.byte(),
            _ => *rng.pick(&alpha),
        };
    }
    if rng.chance(1, 6) {
        n[1] = n[0]; // duplicate needles
    }
    // match density
    match rng.below(8) {
        0 => {
            // none
            for b in hay.iter_mut() {
                if n[..arity as usize].contains(b) {
                    *b = b'~';
                }
            }
            if n[..arity as usize].contains(&b'~') {
                hay.clear();
            }
        }
        1 => {
            // all
            for b in hay.iter_mut() {
                *b = n[0];
            }
        }
        2 => {
            // every k-th
            let k = rng.range(2, 70);
            for (i, b) in hay.iter_mut().enumerate() {
                if i % k == 0 {
                    *b = n[rng.usize_below(arity as usize)];
                }
            }
        }
        3 => {
            // a single match at a chosen place
            for b in hay.iter_mut() {
                if n[..arity as usize].contains(b) {
                    *b = b'~';
                }
            }
            if !hay.is_empty() && !n[..arity as usize].contains(&b'~') {
                let i = match rng.below(4) {
                    0 => 0,
                    1 => hay.len() - 1,
                    _ => rng.usize_below(hay.len()),
                };
                hay[i] = n[0];
            }
        }
        5 => {
            // near misses for bit tricks: bytes one bit (or one unit) away
            // from a needle, right next to real matches
            if !hay.is_empty() {
                for _ in 0..rng.range(1, 8) {
                    let i = rng.usize_below(hay.len());
                    let nb = n[rng.usize_below(arity as usize)];
                    let near = match rng.below(5) {
                        0 => nb ^ 1,
                        1 => nb ^ 0x80,
                        2 => nb.wrapping_add(1),
                        3 => nb.wrapping_sub(1),
                        _ => nb ^ (1 << rng.below(8)),
                    };
                    hay[i] = nb;
                    if i > 0 && rng.chance(2, 3) {
                        hay[i - 1] = near;
                    }
                    if i + 1 < hay.len() && rng.chance(1, 3) {
                        hay[i + 1] = near;
                    }
                }
            }
        }
        4 => {
            // a few
            for _ in 0..rng.range(1, 6) {
                if !hay.is_empty() {
                    let i = rng.usize_below(hay.len());
                    hay[i] = n[rng.usize_below(arity as usize)];
                }
            }
        }
        _ => {}
    }
    (arity, n, hay)
}

/// Adversarial (needle, haystack) families at a requested size, for the cost
/// property.
pub fn cost_pair(rng: &mut Rng, n: usize, m: usize) -> (Vec<u8>, Vec<u8>, &'static str) {
    // every decision about the shape is drawn before any content, so that two
    // calls from the same generator state with different sizes give the same
    // shape (the two-size cost oracle relies on it)
    let wear = rng.chance(1, 3);
    let reps = rng.range(60, 200);
    let wear_kind = rng.below(3);
    let (needle, mut hay, name) = cost_pair_inner(rng, n, m);
    // sometimes first wear the adaptive prefilter out (>= 50 candidates that
    // skip < 8 bytes each), so that the body is searched without it
    if wear && needle.len() >= 2 {
        let mut prefix: Vec<u8> = Vec::new();
        match wear_kind {
            0 => {
                for _ in 0..reps {
                    prefix.extend_from_slice(&needle[..2]);
                }
            }
            1 => {
                // every distinct needle byte, over and over
                let mut seen: Vec<u8> = Vec::new();
                for &b in &needle {
                    if !seen.contains(&b) {
                        seen.push(b);
                    }
                }
                for i in 0..reps * 2 {
                    prefix.push(seen[i % seen.len()]);
                }
            }
            _ => {
                // near matches back to back: needle with its last byte spoiled
                let cut = needle.len().min(6);
                for _ in 0..reps {
                    prefix.extend_from_slice(&needle[..cut]);
                }
            }
        }
        prefix.extend_from_slice(&hay);
        hay = prefix;
    }
    (needle, hay, name)
}

/// A needle made of a few letter runs whose lengths are related (k, k-1,
/// k+1, 1, 2): the shapes that stress suffix/period preprocessing.
pub fn run_grammar(rng: &mut Rng, m: usize) -> Vec<u8> {
    let runs = rng.range(2, 6);
    let k = (m / runs.max(1)).max(1);
    let mut out = Vec::with_capacity(m + 8);
    let mut letter = if rng.chance(1, 2) { b'a' } else { b'b' };
    for _ in 0..runs {
        let len = match rng.below(6) {
            0 => k,
            1 => k.saturating_sub(1).max(1),
            2 => k + 1,
            3 => 1,
            4 => 2,
            _ => rng.range(1, k.max(1)),
        };
        out.extend(std::iter::repeat(letter).take(len));
        letter = match rng.below(3) {
            0 => b'a',
            1 => b'b',
            _ => {
                if letter == b'a' {
                    b'b'
                } else {
                    b'a'
                }
            }
        };
    }
    out
}

fn cost_pair_inner(rng: &mut Rng, n: usize, m: usize) -> (Vec<u8>, Vec<u8>, &'static str) {
    let m = m.max(1).min(n.max(1));
    match rng.below(24) {
        20 | 21 => {
            // two long runs of one letter whose lengths differ by a little,
            // each closed by its own letter: x^(k+d) y x^k z (and mirrored).
            // The tail nearly overlaps the head at many offsets, which is
            // what period / border computations have to get through; the
            // haystack is made of the same runs and never matches
            let d = rng.range(0, 6);
            let k = (m.saturating_sub(d + 2) / 2).max(1);
            let (x, y, z) = *rng.pick(&[(b'a', b'b', b'c'), (b'a', b'b', b'b'), (b'z', b' ', b'm'), (0u8, 1u8, 255u8)]);
            let mut needle = vec![x; k + d];
            needle.push(y);
            needle.extend(std::iter::repeat(x).take(k));
            needle.push(z);
            if rng.chance(1, 2) {
                needle.reverse();
            }
            let mut hay = vec![x; n];
            let step = match rng.below(3) {
                0 => k + 1,
                1 => k + d + 1,
                _ => k.max(2) - 1,
            }
            .max(1);
            let mut i = rng.range(0, step);
            while i < n {
                hay[i] = y;
                i += step;
            }
            (needle, hay, "x^(k+d) y x^k z in its own runs")
        }
        22 | 23 => {
            // a short head, one long run, one closing byte; the haystack is a
            // long stretch without any needle byte (credit for the adaptive
            // prefilter) followed by the run byte alone: every position of
            // that region is a candidate that fails only at the closing byte
            let (head, run, close, fill): (&[u8], u8, u8, u8) = *rng.pick(&[
                (&b"zz "[..], b'z', b'm', b'a'),
                (&b"q"[..], b'z', b'Z', b'e'),
                (&b""[..], b'a', b'b', b'x'),
                (&b"ab"[..], b'a', b'c', b'.'),
                (&b"\x00\x00\x01"[..], 0u8, 2u8, 0xffu8),
            ]);
            let l = m.saturating_sub(head.len() + 1).max(1);
            let mut needle = head.to_vec();
            needle.extend(std::iter::repeat(run).take(l));
            needle.push(close);
            if rng.chance(1, 3) {
                needle.reverse();
            }
            let dense = match rng.below(3) {
                0 => n / 9,
                1 => n / 2,
                _ => (7 * needle.len()).min(n),
            };
            let mut hay = vec![fill; n - dense];
            hay.extend(std::iter::repeat(run).take(dense));
            if rng.chance(1, 3) {
                hay.reverse();
            }
            (needle, hay, "head run^L close after a candidate-free stretch")
        }
        18 | 19 => {
            // candidates at least 8 bytes apart (the prefilter stays switched
            // on), each sharing a long prefix with the needle, none matching:
            // (u)^k + breaking tail, searched in (u)^r, |u| in 8..=64
            let p = rng.range(8, 64).min(m.max(8));
            let mut u = vec![b'a'; p];
            u[p - 1] = b'b';
            if p > 3 && rng.chance(1, 2) {
                u[p / 2] = b'c';
            }
            let mut needle: Vec<u8> = (0..m).map(|i| u[i % p]).collect();
            let l = needle.len();
            if l >= 2 {
                // break the period at the very end so that it never matches
                needle[l - 1] = if needle[l - 1] == b'a' { b'b' } else { b'a' };
                if rng.chance(1, 2) {
                    needle[l - 2] = b'a';
                }
            }
            let hay: Vec<u8> = (0..n).map(|i| u[i % p]).collect();
            (needle, hay, "long-period periodic, candidates >= 8 apart, never matching")
        }
        14 | 15 => {
            // run-length grammar needles (construction cost), ordinary haystack
            let needle = run_grammar(rng, m);
            let hay = match rng.below(3) {
                0 => vec![needle[0]; n],
                1 => word(rng, n, b"ab"),
                _ => {
                    let mut h = Vec::with_capacity(n + needle.len());
                    while h.len() < n {
                        h.extend_from_slice(&needle[..needle.len().min(n - h.len()).max(1)]);
                    }
                    h
                }
            };
            (needle, hay, "run-length grammar needle")
        }
        16 | 17 => {
            // needle longer than half the haystack: few windows, each almost matching
            let m2 = (n / 2 + rng.range(1, 8)).min(n).max(2);
            let mut needle = vec![b'a'; m2];
            match rng.below(3) {
                0 => needle[m2 - 1] = b'b',
                1 => {
                    let at = m2.saturating_sub(40).min(m2 - 1);
                    needle[at] = b'b'
                }
                _ => needle[0] = b'b',
            }
            (needle, vec![b'a'; n], "needle longer than half the haystack")
        }
        12 | 13 => {
            // the portable prefilter's worst case: a needle whose rare byte
            // sits at a large offset, a haystack with a long candidate-free
            // prefix (keeps the prefilter "effective") and then that rare byte
            // at every other position
            let variant = rng.below(4);
            let swap = rng.chance(1, 4);
            let spacing = rng.range(8, 20);
            let m2 = if variant == 0 { m.min(rng.range(40, 255)) } else { m.min(255) };
            let (r1, r2) = if swap { (b'q', b'Z') } else { (b'Z', b'q') };
            // variants 1..: the needle keeps its requested length; the rare
            // pair sits within the first 255 bytes, as far apart as possible
            let mut needle = vec![b'e'; if variant == 0 { m2 } else { m.max(2) }];
            needle[m2 - 1] = r1;
            if m2 >= 3 {
                needle[m2 / 3] = r2;
            }
            let mut hay = vec![b'x'; n];
            match variant {
                0 => {
                    let split = n / 2;
                    for i in split..n {
                        hay[i] = if i % 2 == 0 { r1 } else if i % 3 == 0 { r2 } else { b'e' };
                    }
                }
                1 => {
                    // one huge skip pays for n/16 later calls; each of them
                    // walks over index1 occurrences of the rare byte before it
                    // may report a candidate
                    let split = n / 2;
                    for i in split..n {
                        hay[i] = if i % spacing == 0 { r2 } else { r1 };
                    }
                }
                2 => {
                    // no credit: candidates exactly far enough apart for the
                    // prefilter to stay in use for ever
                    for i in 0..n {
                        hay[i] = if i % spacing == 0 { r2 } else { r1 };
                    }
                }
                _ => {
                    // the same with the common byte mixed in
                    for i in 0..n {
                        hay[i] = if i % spacing == 0 { r2 } else if i % 5 == 1 { b'e' } else { r1 };
                    }
                }
            }
            (needle, hay, "portable prefilter worst case")
        }
        9 => {
            // b a^(m-1) in a^n: the right part matches everywhere, the left never
            let mut needle = vec![b'a'; m];
            needle[0] = b'b';
            (needle, vec![b'a'; n], "b a^(m-1) in a^n")
        }
        10 => {
            // u v^k with short u that breaks v's period, haystack v^N
            let k = rng.range(1, 3.min(m));
            let v = word(rng, k, b"ab");
            let mut needle: Vec<u8> = (0..m).map(|i| v[i % k]).collect();
            needle[0] = b'c';
            let hay: Vec<u8> = (0..n).map(|i| v[i % k]).collect();
            (needle, hay, "c v^k in v^N")
        }
        11 => {
            // a^(m/2) b a^(m/2) in (a^(m/2) c)^r
            let mut needle = vec![b'a'; m];
            needle[m / 2] = b'b';
            let hay: Vec<u8> = (0..n).map(|i| if i % (m / 2 + 1) == m / 2 { b'c' } else { b'a' }).collect();
            (needle, hay, "a^k b a^k in (a^k c)^r")
        }
        0 => {
            // a^m in (a^(m-1) b)^r
            let needle = vec![b'a'; m];
            let hay: Vec<u8> = (0..n).map(|i| if i % m == m - 1 { b'b' } else { b'a' }).collect();
            (needle, hay, "a^m in (a^(m-1)b)^r")
        }
        1 => {
            // periodic needle in a haystack made of its near-periods
            let p = rng.range(1, 8.min(m));
            let u = word(rng, p, b"ab");
            let needle: Vec<u8> = (0..m).map(|i| u[i % p]).collect();
            let mut hay: Vec<u8> = (0..n).map(|i| u[i % p]).collect();
            // break the period every ~m bytes
            let step = (m + rng.range(0, 3)).max(2);
            let mut i = step - 1;
            while i < hay.len() {
                hay[i] = b'c';
                i += step;
            }
            (needle, hay, "periodic needle in near-periods")
        }
        2 => {
            // the needle's two rarest bytes recur at every haystack position
            let mut needle = vec![b'x'; m];
            if m >= 2 {
                needle[0] = b'q';
                needle[m - 1] = b'z';
            }
            let hay: Vec<u8> = (0..n).map(|i| if i % 2 == 0 { b'q' } else { b'z' }).collect();
            (needle, hay, "rare pair everywhere")
        }
        3 => (fibonacci_word(m, b'a', b'b'), fibonacci_word(n, b'a', b'b'), "fibonacci"),
        4 => (thue_morse(m, b'a', b'b'), thue_morse(n, b'a', b'b'), "thue-morse"),
        5 => {
            // long candidate-free prefix, then a dense false-candidate region
            let mut needle = vec![b'a'; m];
            if m >= 2 {
                needle[m - 1] = b'b';
                needle[m / 2] = b'c';
            }
            let split = n / 2;
            let mut hay = vec![b'x'; n];
            for i in split..n {
                hay[i] = match (i - split) % 3 {
                    0 => b'c',
                    1 => b'b',
                    _ => b'a',
                };
            }
            (needle, hay, "free prefix then dense false candidates")
        }
        6 => {
            // dense true matches (iterators)
            let k = rng.range(1, 4.min(m));
            let u = word(rng, k, b"ab");
            let needle: Vec<u8> = (0..m).map(|i| u[i % k]).collect();
            let hay: Vec<u8> = (0..n).map(|i| u[i % k]).collect();
            (needle, hay, "dense true matches")
        }
        7 => {
            // a^(m-1) b in a^n : every window is a near match
            let mut needle = vec![b'a'; m];
            needle[m - 1] = b'b';
            (needle, vec![b'a'; n], "a^(m-1)b in a^n")
        }
        _ => {
            let needle = word(rng, m, b"ab");
            let hay = word(rng, n, b"ab");
            (needle, hay, "random binary")
        }
    }
}
