//! The simulator's only source of randomness. Pure u64 arithmetic so that the
//! same seed produces the same episode on every target (x86_64, i686, s390x,
//! aarch64, ...). Nothing in here reads a clock or the environment.

#[inline]
pub fn splitmix64(state: &mut u64) -> u64 {
    *state = state.wrapping_add(0x9E37_79B9_7F4A_7C15);
    let mut z = *state;
    z = (z ^ (z >> 30)).wrapping_mul(0xBF58_476D_1CE4_E5B9);
    z = (z ^ (z >> 27)).wrapping_mul(0x94D0_49BB_1331_11EB);
    z ^ (z >> 31)
}

/// Derives the seed of one episode from `VERIF_SEED`, the profile and the
/// episode index. Worker count and ordering therefore cannot influence what
/// an episode looks like.
pub fn episode_seed(verif_seed: u64, profile: u64, index: u64) -> u64 {
    let mut s = verif_seed ^ 0x6d65_6d63_6872_7631; // "memchrv1"
    let a = splitmix64(&mut s);
    let mut t = a ^ profile.wrapping_mul(0xD6E8_FEB8_6659_FD93);
    let b = splitmix64(&mut t);
    let mut u = b ^ index.wrapping_mul(0xA076_1D64_78BD_642F);
    splitmix64(&mut u)
}

/// xoshiro256**
#[derive(Clone, Debug)]
pub struct Rng {
    s: [u64; 4],
}

impl Rng {
    pub fn new(seed: u64) -> Rng {
        let mut sm = seed;
        let s = [
            splitmix64(&mut sm),
            splitmix64(&mut sm),
            splitmix64(&mut sm),
            splitmix64(&mut sm),
        ];
        Rng { s }
    }

    #[inline]
    pub fn next_u64(&mut self) -> u64 {
        let result = self.s[1].wrapping_mul(5).rotate_left(7).wrapping_mul(9);
        let t = self.s[1] << 17;
        self.s[2] ^= self.s[0];
        self.s[3] ^= self.s[1];
        self.s[1] ^= self.s[2];
        self.s[0] ^= self.s[3];
        self.s[2] ^= t;
        self.s[3] = self.s[3].rotate_left(45);
        result
    }

    /// Uniform in `0..n` (`n > 0`).
    #[inline]
    pub fn below(&mut self, n: u64) -> u64 {
        debug_assert!(n > 0);
        ((self.next_u64() as u128 * n as u128) >> 64) as u64
    }

    #[inline]
    pub fn usize_below(&mut self, n: usize) -> usize {
        self.below(n as u64) as usize
    }

    /// Uniform in `lo..=hi`.
    #[inline]
    pub fn range(&mut self, lo: usize, hi: usize) -> usize {
        debug_assert!(lo <= hi);
        lo + self.below((hi - lo) as u64 + 1) as usize
    }

    /// True with probability `num/den`.
    #[inline]
    pub fn chance(&mut self, num: u64, den: u64) -> bool {
        self.below(den) < num
    }

    #[inline]
    pub fn byte(&mut self) -> u8 {
        (self.next_u64() >> 56) as u8
    }

    pub fn pick<'a, T>(&mut self, xs: &'a [T]) -> &'a T {
        &xs[self.usize_below(xs.len())]
    }

    /// Picks an index according to integer weights.
    pub fn weighted(&mut self, weights: &[u32]) -> usize {
        let total: u64 = weights.iter().map(|&w| w as u64).sum();
        debug_assert!(total > 0);
        let mut x = self.below(total);
        for (i, &w) in weights.iter().enumerate() {
            if x < w as u64 {
                return i;
            }
            x -= w as u64;
        }
        weights.len() - 1
    }

    pub fn fork(&mut self) -> Rng {
        Rng::new(self.next_u64())
    }
}

/// FNV-1a style 64-bit hasher with a fixed, platform independent definition.
/// Used for episode log hashes and signatures (never `std::hash`, whose
/// output may differ between targets and releases).
#[derive(Clone, Copy, Debug)]
pub struct Fnv(pub u64);

impl Fnv {
    pub fn new() -> Fnv {
        Fnv(0xcbf2_9ce4_8422_2325)
    }
    #[inline]
    pub fn u8(&mut self, b: u8) {
        self.0 ^= b as u64;
        self.0 = self.0.wrapping_mul(0x0000_0100_0000_01B3);
    }
    #[inline]
    pub fn u64(&mut self, x: u64) {
        for i in 0..8 {
            self.u8((x >> (8 * i)) as u8);
        }
    }
    pub fn bytes(&mut self, bs: &[u8]) {
        self.u64(bs.len() as u64);
        for &b in bs {
            self.u8(b);
        }
    }
    pub fn finish(&self) -> u64 {
        // final avalanche so that truncations are usable too
        let mut z = self.0;
        z = (z ^ (z >> 30)).wrapping_mul(0xBF58_476D_1CE4_E5B9);
        z = (z ^ (z >> 27)).wrapping_mul(0x94D0_49BB_1331_11EB);
        z ^ (z >> 31)
    }
}
