//! The simulator-owned global allocator (seam S6).
//!
//! It counts allocation requests made while the *calling thread* is armed.
//! The harness arms it immediately before a library call and disarms it
//! immediately after, so its own bookkeeping is never counted. The flags are
//! const-initialised thread locals (no lazy initialisation, no destructor),
//! which is what makes them usable from inside an allocator.

use std::alloc::{GlobalAlloc, Layout, System};
use std::cell::Cell;

thread_local! {
    static ARMED: Cell<bool> = const { Cell::new(false) };
    static COUNT: Cell<u64> = const { Cell::new(0) };
    static BYTES: Cell<u64> = const { Cell::new(0) };
}

pub struct Counting;

#[inline]
fn note(size: usize) {
    // `try_with` so that allocations during thread teardown cannot panic
    let _ = ARMED.try_with(|a| {
        if a.get() {
            let _ = COUNT.try_with(|c| c.set(c.get() + 1));
            let _ = BYTES.try_with(|c| c.set(c.get() + size as u64));
        }
    });
}

unsafe impl GlobalAlloc for Counting {
    unsafe fn alloc(&self, layout: Layout) -> *mut u8 {
        note(layout.size());
        System.alloc(layout)
    }
    unsafe fn alloc_zeroed(&self, layout: Layout) -> *mut u8 {
        note(layout.size());
        System.alloc_zeroed(layout)
    }
    unsafe fn realloc(&self, ptr: *mut u8, layout: Layout, new_size: usize) -> *mut u8 {
        note(new_size);
        System.realloc(ptr, layout, new_size)
    }
    unsafe fn dealloc(&self, ptr: *mut u8, layout: Layout) {
        System.dealloc(ptr, layout)
    }
}

/// Arms or disarms the probe for the calling thread; returns the old state.
#[inline]
pub fn set_armed(on: bool) -> bool {
    ARMED.with(|a| a.replace(on))
}

#[inline]
pub fn is_armed() -> bool {
    ARMED.with(|a| a.get())
}

/// Requests seen while armed since the last `take`.
#[inline]
pub fn take() -> u64 {
    COUNT.with(|c| c.replace(0))
}

#[inline]
pub fn peek() -> u64 {
    COUNT.with(|c| c.get())
}
