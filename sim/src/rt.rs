//! Runtime abstraction for simulated caller threads.
//!
//! * `Shuttle`: threads are shuttle tasks (coroutines on ONE OS thread); the
//!   simulator's own `Scheduler` (sched.rs) decides who runs at every seam
//!   point, from the episode's choice source.
//! * `Os`: threads are `std::thread`s. Used under Miri, whose seeded scheduler,
//!   weak-memory emulation and data-race detector then own the interleaving.
//! * `Inline`: one thread after the other on the calling thread.

use crate::world::{suspended, RtMode};

#[cfg(feature = "shuttle")]
pub fn yield_now() {
    // `thread::sleep` rather than `yield_now`: a yield would mark the task as
    // "yielding", which PCT-style schedulers treat as a request to be
    // deprioritised. Our scheduler ignores the hint, but be explicit.
    shuttle::thread::yield_now();
}

#[cfg(not(feature = "shuttle"))]
pub fn yield_now() {
    std::thread::yield_now();
}

pub enum Handle {
    Std(std::thread::JoinHandle<()>),
    #[cfg(feature = "shuttle")]
    Sh(shuttle::thread::JoinHandle<()>),
    Done,
}

pub fn spawn(mode: RtMode, f: impl FnOnce() + Send + 'static) -> Handle {
    match mode {
        RtMode::Inline => {
            let saved = crate::world::cur_ctx();
            f();
            crate::world::set_ctx(saved);
            Handle::Done
        }
        RtMode::Os => Handle::Std(std::thread::spawn(f)),
        #[cfg(feature = "shuttle")]
        RtMode::Shuttle => suspended(|| Handle::Sh(shuttle::thread::spawn(f))),
        #[cfg(not(feature = "shuttle"))]
        RtMode::Shuttle => unreachable!("built without shuttle"),
    }
}

impl Handle {
    pub fn join(self) {
        match self {
            Handle::Done => {}
            Handle::Std(h) => h.join().expect("simulated thread panicked (harness bug)"),
            #[cfg(feature = "shuttle")]
            Handle::Sh(h) => suspended(|| h.join().expect("simulated task panicked (harness bug)")),
        }
    }
}

/// A mutex + condition variable pair that blocks in the way the current
/// runtime understands.
pub enum Shared<T> {
    Std(std::sync::Mutex<T>, std::sync::Condvar),
    #[cfg(feature = "shuttle")]
    Sh(shuttle::sync::Mutex<T>, shuttle::sync::Condvar),
}

impl<T> Shared<T> {
    pub fn new(mode: RtMode, t: T) -> Shared<T> {
        match mode {
            #[cfg(feature = "shuttle")]
            RtMode::Shuttle => Shared::Sh(shuttle::sync::Mutex::new(t), shuttle::sync::Condvar::new()),
            _ => Shared::Std(std::sync::Mutex::new(t), std::sync::Condvar::new()),
        }
    }

    /// Lock, run `f`, wake all waiters, unlock.
    pub fn with<R>(&self, f: impl FnOnce(&mut T) -> R) -> R {
        match self {
            Shared::Std(m, cv) => {
                let mut g = m.lock().unwrap();
                let r = f(&mut g);
                cv.notify_all();
                r
            }
            #[cfg(feature = "shuttle")]
            Shared::Sh(m, cv) => suspended(|| {
                let mut g = m.lock().unwrap();
                let r = f(&mut g);
                cv.notify_all();
                r
            }),
        }
    }

    /// Block until `f` returns `Some`.
    pub fn wait<R>(&self, mut f: impl FnMut(&mut T) -> Option<R>) -> R {
        match self {
            Shared::Std(m, cv) => {
                let mut g = m.lock().unwrap();
                loop {
                    if let Some(r) = f(&mut g) {
                        cv.notify_all();
                        return r;
                    }
                    g = cv.wait(g).unwrap();
                }
            }
            #[cfg(feature = "shuttle")]
            Shared::Sh(m, cv) => suspended(|| {
                let mut g = m.lock().unwrap();
                loop {
                    if let Some(r) = f(&mut g) {
                        cv.notify_all();
                        return r;
                    }
                    g = cv.wait(g).unwrap();
                }
            }),
        }
    }
}
