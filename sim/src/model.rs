//! Reference models: same interface as the library, trivial inside.

pub fn is_needle(b: u8, arity: u8, n: &[u8; 3]) -> bool {
    n[..arity as usize].contains(&b)
}

pub fn byte_find(hay: &[u8], arity: u8, n: &[u8; 3]) -> Option<usize> {
    hay.iter().position(|&b| is_needle(b, arity, n))
}

pub fn byte_rfind(hay: &[u8], arity: u8, n: &[u8; 3]) -> Option<usize> {
    hay.iter().rposition(|&b| is_needle(b, arity, n))
}

pub fn byte_count(hay: &[u8], arity: u8, n: &[u8; 3]) -> usize {
    hay.iter().filter(|&&b| is_needle(b, arity, n)).count()
}

pub fn byte_positions(hay: &[u8], arity: u8, n: &[u8; 3]) -> std::collections::VecDeque<usize> {
    hay.iter()
        .enumerate()
        .filter(|(_, &b)| is_needle(b, arity, n))
        .map(|(i, _)| i)
        .collect()
}

/// Leftmost occurrence of `needle` in `hay`, by definition.
pub fn find(hay: &[u8], needle: &[u8]) -> Option<usize> {
    let m = needle.len();
    if m == 0 {
        return Some(0);
    }
    if m > hay.len() {
        return None;
    }
    let first = needle[0];
    let last = hay.len() - m;
    let mut i = 0;
    while i <= last {
        if hay[i] == first && &hay[i..i + m] == needle {
            return Some(i);
        }
        i += 1;
    }
    None
}

/// Rightmost occurrence of `needle` in `hay`, by definition.
pub fn rfind(hay: &[u8], needle: &[u8]) -> Option<usize> {
    let m = needle.len();
    if m == 0 {
        return Some(hay.len());
    }
    if m > hay.len() {
        return None;
    }
    let first = needle[0];
    let mut i = hay.len() - m;
    loop {
        if hay[i] == first && &hay[i..i + m] == needle {
            return Some(i);
        }
        if i == 0 {
            return None;
        }
        i -= 1;
    }
}

/// The greedy non-overlapping leftmost sequence; for the empty needle every
/// offset `0..=len` ascending.
pub fn find_all(hay: &[u8], needle: &[u8]) -> Vec<usize> {
    let mut out = Vec::new();
    if needle.is_empty() {
        out.extend(0..=hay.len());
        return out;
    }
    let mut pos = 0;
    while pos <= hay.len() {
        match find(&hay[pos..], needle) {
            None => break,
            Some(i) => {
                out.push(pos + i);
                pos = pos + i + needle.len();
            }
        }
    }
    out
}

/// The mirror image from the right; for the empty needle every offset
/// `len..=0` descending.
pub fn rfind_all(hay: &[u8], needle: &[u8]) -> Vec<usize> {
    let mut out = Vec::new();
    if needle.is_empty() {
        out.extend((0..=hay.len()).rev());
        return out;
    }
    let mut end = hay.len();
    loop {
        match rfind(&hay[..end], needle) {
            None => break,
            Some(i) => {
                out.push(i);
                end = i;
            }
        }
    }
    out
}

/// A ranker table as the harness hands it to the library.
pub fn ranker_table(r: &crate::episode::Ranker, needle: &[u8]) -> Option<[u8; 256]> {
    use crate::episode::Ranker::*;
    let mut t = [0u8; 256];
    match r {
        Default => return None,
        Const(c) => t = [*c; 256],
        Identity => {
            for i in 0..256 {
                t[i] = i as u8
            }
        }
        Reversed => {
            for i in 0..256 {
                t[i] = 255 - i as u8
            }
        }
        Table(seed) => {
            let mut rng = crate::rng::Rng::new(*seed);
            for i in 0..256 {
                t[i] = rng.byte()
            }
        }
        NeedleCommon => {
            for &b in needle {
                t[b as usize] = 255
            }
        }
        NeedleRare => {
            t = [255; 256];
            for &b in needle {
                t[b as usize] = 0
            }
        }
    }
    Some(t)
}
