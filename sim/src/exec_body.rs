// The executor: runs the operations of an episode against ONE compiled copy of
// the library (`mc`), checks every return value against the reference model
// and evaluates the per-operation invariants.
//
// This file is `include!`d three times (std / alloc-only / no-feature copies
// of the crate), inside a module that defines:
//   use <copy> as mc;
//   const KRATE: Krate;
//   macro_rules! if_alloc { ... }   // expands its body only when the copy has `alloc`

use std::collections::VecDeque;
use std::panic::{catch_unwind, AssertUnwindSafe};
use std::sync::Arc;

use crate::episode::*;
use crate::model;
use crate::rt::{self, Shared};
use crate::world::{self, with_ctx, RtMode, TaskCtx, World};

use mc::arch::all as m_all;
use mc::memmem;

// ---------------------------------------------------------------------------
// calling into the library

fn panic_msg(e: Box<dyn std::any::Any + Send>) -> String {
    if let Some(s) = e.downcast_ref::<&str>() {
        s.to_string()
    } else if let Some(s) = e.downcast_ref::<String>() {
        s.clone()
    } else {
        "<non-string panic>".to_string()
    }
}

/// One call into the library: allocator probe armed, panics caught.
fn lib<R>(f: impl FnOnce() -> R) -> Result<R, String> {
    with_ctx(|c| {
        c.alloc_mark = crate::alloc::peek();
        c.in_lib = true;
    });
    crate::alloc::set_armed(true);
    let r = catch_unwind(AssertUnwindSafe(f));
    crate::alloc::set_armed(false);
    let panicked = r.is_err();
    with_ctx(|c| {
        c.allocs += crate::alloc::peek() - c.alloc_mark;
        c.in_lib = false;
        c.lib_panicked |= panicked;
    });
    r.map_err(panic_msg)
}

// ---------------------------------------------------------------------------
// hook installation for this copy

static HOOKS: mc::verif::Hooks = mc::verif::Hooks {
    seam: world::hook_seam,
    cpu_hidden: world::hook_cpu_hidden,
    stale: world::hook_stale,
    event: world::hook_event,
    buggify: world::hook_buggify,
};

pub fn install_hooks(on: bool) {
    mc::verif::install(if on { Some(&HOOKS) } else { None });
}

pub fn slot_value(slot: usize) -> Option<(*mut (), *mut ())> {
    mc::verif::slot_value(slot)
}

pub fn reset_slots() {
    mc::verif::reset_slots();
}

pub fn set_tick_seams(on: bool) {
    mc::verif::set_tick_seams(on);
}

pub fn ticks() -> u64 {
    mc::verif::ticks() as u64
}

pub fn abi_check() {
    use mc::verif as v;
    assert_eq!(v::SITE_BEFORE_LOAD, world::SITE_BEFORE_LOAD);
    assert_eq!(v::SITE_BEFORE_STORE, world::SITE_BEFORE_STORE);
    assert_eq!(v::SITE_AFTER_STORE, world::SITE_AFTER_STORE);
    assert_eq!(v::SITE_AFTER_LOAD, world::SITE_AFTER_LOAD);
    assert_eq!(v::SITE_TICK, world::SITE_TICK);
    assert_eq!(v::FEATURE_SSE2, world::FEATURE_SSE2);
    assert_eq!(v::FEATURE_AVX2, world::FEATURE_AVX2);
    assert_eq!(v::BACKEND_FALLBACK, world::BACKEND_FALLBACK);
    assert_eq!(v::BACKEND_SSE2, world::BACKEND_SSE2);
    assert_eq!(v::BACKEND_AVX2, world::BACKEND_AVX2);
    assert_eq!(v::EV_CHOSE, world::EV_CHOSE);
    assert_eq!(v::EV_RAN, world::EV_RAN);
    assert_eq!(v::EV_SEARCHER, world::EV_SEARCHER);
    assert_eq!(v::EV_PREFILTER, world::EV_PREFILTER);
    assert_eq!(v::EV_PROBE, world::EV_PROBE);
    assert_eq!(v::SK_SSE2, world::SK_SSE2);
    assert_eq!(v::SK_AVX2, world::SK_AVX2);
    assert_eq!(v::PK_SSE2, world::PK_SSE2);
    assert_eq!(v::PK_AVX2, world::PK_AVX2);
    assert_eq!(v::PROBE_COUNT, world::PROBE_COUNT);
    assert_eq!(v::SLOTS, world::SLOTS);
}

// ---------------------------------------------------------------------------
// a ranker handed to the library (seam S9: caller-supplied code)

struct TableRanker([u8; 256]);

impl m_all::packedpair::HeuristicFrequencyRank for TableRanker {
    fn rank(&self, byte: u8) -> u8 {
        self.0[byte as usize]
    }
}

// ---------------------------------------------------------------------------
// byte searchers behind one object-safe interface

type PtrRes = Option<*const u8>;

trait ByteSearcher: Send + Sync {
    fn find(&self, h: &[u8]) -> Option<usize>;
    fn rfind(&self, h: &[u8]) -> Option<usize>;
    /// None: this searcher has no raw form
    unsafe fn find_raw(&self, s: *const u8, e: *const u8) -> Option<PtrRes>;
    unsafe fn rfind_raw(&self, s: *const u8, e: *const u8) -> Option<PtrRes>;
    fn count(&self, h: &[u8]) -> Option<usize>;
    unsafe fn count_raw(&self, s: *const u8, e: *const u8) -> Option<usize>;
    fn iter(self: Arc<Self>, h: &'static [u8]) -> Box<dyn DynIter>;
}

trait DynIter: Send {
    fn next(&mut self) -> Result<Option<usize>, String>;
    fn next_back(&mut self) -> Result<Option<usize>, String>;
    fn hint(&self) -> Result<(usize, Option<usize>), String>;
    fn fork(&self) -> Result<Box<dyn DynIter>, String>;
    fn count(self: Box<Self>) -> Result<usize, String>;
}

/// An iterator together with whatever it borrows from (kept alive, and
/// dropped after the iterator).
struct Wrap<I, K> {
    it: I,
    keep: K,
}

impl<I, K> DynIter for Wrap<I, K>
where
    I: DoubleEndedIterator<Item = usize> + Clone + Send + 'static,
    K: Clone + Send + 'static,
{
    fn next(&mut self) -> Result<Option<usize>, String> {
        lib(|| self.it.next())
    }
    fn next_back(&mut self) -> Result<Option<usize>, String> {
        lib(|| self.it.next_back())
    }
    fn hint(&self) -> Result<(usize, Option<usize>), String> {
        lib(|| self.it.size_hint())
    }
    fn fork(&self) -> Result<Box<dyn DynIter>, String> {
        let it = lib(|| self.it.clone())?;
        Ok(Box::new(Wrap { it, keep: self.keep.clone() }))
    }
    fn count(self: Box<Self>) -> Result<usize, String> {
        let Wrap { it, keep } = *self;
        let r = lib(move || it.count());
        drop(keep);
        r
    }
}

/// The `memrchr*_iter` functions return `Rev<Memchr*>`: the same positions
/// seen through the std adaptor. `next`/`next_back` are swapped back here so
/// that the deque model is the same; `count()` goes through `Rev`'s fold
/// (a `next_back` loop) instead of the specialised `Memchr::count`.
struct RevWrap<I> {
    it: core::iter::Rev<I>,
}

impl<I> DynIter for RevWrap<I>
where
    I: DoubleEndedIterator<Item = usize> + Clone + Send + 'static,
{
    fn next(&mut self) -> Result<Option<usize>, String> {
        lib(|| self.it.next_back())
    }
    fn next_back(&mut self) -> Result<Option<usize>, String> {
        lib(|| self.it.next())
    }
    fn hint(&self) -> Result<(usize, Option<usize>), String> {
        lib(|| self.it.size_hint())
    }
    fn fork(&self) -> Result<Box<dyn DynIter>, String> {
        let it = lib(|| self.it.clone())?;
        Ok(Box::new(RevWrap { it }))
    }
    fn count(self: Box<Self>) -> Result<usize, String> {
        let RevWrap { it } = *self;
        lib(move || it.count())
    }
}

macro_rules! impl_searcher {
    ($ty:ty, count = $has_count:tt) => {
        impl ByteSearcher for $ty {
            fn find(&self, h: &[u8]) -> Option<usize> {
                <$ty>::find(self, h)
            }
            fn rfind(&self, h: &[u8]) -> Option<usize> {
                <$ty>::rfind(self, h)
            }
            unsafe fn find_raw(&self, s: *const u8, e: *const u8) -> Option<PtrRes> {
                Some(<$ty>::find_raw(self, s, e))
            }
            unsafe fn rfind_raw(&self, s: *const u8, e: *const u8) -> Option<PtrRes> {
                Some(<$ty>::rfind_raw(self, s, e))
            }
            impl_searcher!(@count $ty, $has_count);
            fn iter(self: Arc<Self>, h: &'static [u8]) -> Box<dyn DynIter> {
                // SAFETY: the Arc is stored next to the iterator and outlives it.
                let r: &'static $ty = unsafe { &*Arc::as_ptr(&self) };
                let it = r.iter(h);
                Box::new(Wrap { it, keep: self })
            }
        }
    };
    (@count $ty:ty, yes) => {
        fn count(&self, h: &[u8]) -> Option<usize> {
            Some(<$ty>::count(self, h))
        }
        unsafe fn count_raw(&self, s: *const u8, e: *const u8) -> Option<usize> {
            Some(<$ty>::count_raw(self, s, e))
        }
    };
    (@count $ty:ty, no) => {
        fn count(&self, _h: &[u8]) -> Option<usize> {
            None
        }
        unsafe fn count_raw(&self, _s: *const u8, _e: *const u8) -> Option<usize> {
            None
        }
    };
}

impl_searcher!(m_all::memchr::One, count = yes);
impl_searcher!(m_all::memchr::Two, count = no);
impl_searcher!(m_all::memchr::Three, count = no);
#[cfg(target_arch = "x86_64")]
mod x86 {
    use super::*;
    pub use mc::arch::x86_64::{avx2, sse2};
    impl_searcher!(sse2::memchr::One, count = yes);
    impl_searcher!(sse2::memchr::Two, count = no);
    impl_searcher!(sse2::memchr::Three, count = no);
    impl_searcher!(avx2::memchr::One, count = yes);
    impl_searcher!(avx2::memchr::Two, count = no);
    impl_searcher!(avx2::memchr::Three, count = no);
}
#[cfg(target_arch = "aarch64")]
mod arm {
    use super::*;
    pub use mc::arch::aarch64::neon;
    impl_searcher!(neon::memchr::One, count = yes);
    impl_searcher!(neon::memchr::Two, count = no);
    impl_searcher!(neon::memchr::Three, count = no);
}

/// The crate's top-level functions and iterators (runtime dispatch).
struct Top {
    arity: u8,
    n: [u8; 3],
}

impl ByteSearcher for Top {
    fn find(&self, h: &[u8]) -> Option<usize> {
        match self.arity {
            1 => mc::memchr(self.n[0], h),
            2 => mc::memchr2(self.n[0], self.n[1], h),
            _ => mc::memchr3(self.n[0], self.n[1], self.n[2], h),
        }
    }
    fn rfind(&self, h: &[u8]) -> Option<usize> {
        match self.arity {
            1 => mc::memrchr(self.n[0], h),
            2 => mc::memrchr2(self.n[0], self.n[1], h),
            _ => mc::memrchr3(self.n[0], self.n[1], self.n[2], h),
        }
    }
    unsafe fn find_raw(&self, _s: *const u8, _e: *const u8) -> Option<PtrRes> {
        None
    }
    unsafe fn rfind_raw(&self, _s: *const u8, _e: *const u8) -> Option<PtrRes> {
        None
    }
    fn count(&self, h: &[u8]) -> Option<usize> {
        match self.arity {
            1 => Some(mc::memchr_iter(self.n[0], h).count()),
            2 => Some(mc::memchr2_iter(self.n[0], self.n[1], h).count()),
            _ => Some(mc::memchr3_iter(self.n[0], self.n[1], self.n[2], h).count()),
        }
    }
    unsafe fn count_raw(&self, _s: *const u8, _e: *const u8) -> Option<usize> {
        None
    }
    fn iter(self: Arc<Self>, h: &'static [u8]) -> Box<dyn DynIter> {
        // three public ways to the same iterator; which one is a function of
        // the call's arguments only (no generator state: the episode format
        // and the other substrates' interpreters stay as they are)
        let way = (h.len() + self.n[0] as usize) % 4;
        match (self.arity, way) {
            (1, 0) => Box::new(RevWrap { it: mc::memrchr_iter(self.n[0], h) }),
            (2, 0) => Box::new(RevWrap { it: mc::memrchr2_iter(self.n[0], self.n[1], h) }),
            (_, 0) => Box::new(RevWrap { it: mc::memrchr3_iter(self.n[0], self.n[1], self.n[2], h) }),
            (1, 1) => Box::new(Wrap { it: mc::memchr_iter(self.n[0], h), keep: () }),
            (2, 1) => Box::new(Wrap { it: mc::memchr2_iter(self.n[0], self.n[1], h), keep: () }),
            (_, 1) => Box::new(Wrap { it: mc::memchr3_iter(self.n[0], self.n[1], self.n[2], h), keep: () }),
            (1, _) => Box::new(Wrap { it: mc::Memchr::new(self.n[0], h), keep: () }),
            (2, _) => Box::new(Wrap { it: mc::Memchr2::new(self.n[0], self.n[1], h), keep: () }),
            _ => Box::new(Wrap { it: mc::Memchr3::new(self.n[0], self.n[1], self.n[2], h), keep: () }),
        }
    }
}

fn make_searcher(be: Backend, arity: u8, n: [u8; 3]) -> Option<Arc<dyn ByteSearcher>> {
    let arity = arity.clamp(1, 3);
    match be {
        Backend::Top => Some(Arc::new(Top { arity, n })),
        Backend::All => Some(match arity {
            1 => Arc::new(m_all::memchr::One::new(n[0])),
            2 => Arc::new(m_all::memchr::Two::new(n[0], n[1])),
            _ => Arc::new(m_all::memchr::Three::new(n[0], n[1], n[2])),
        }),
        #[cfg(target_arch = "x86_64")]
        Backend::Sse2 => match arity {
            1 => x86::sse2::memchr::One::new(n[0]).map(|s| Arc::new(s) as Arc<dyn ByteSearcher>),
            2 => x86::sse2::memchr::Two::new(n[0], n[1]).map(|s| Arc::new(s) as Arc<dyn ByteSearcher>),
            _ => x86::sse2::memchr::Three::new(n[0], n[1], n[2]).map(|s| Arc::new(s) as Arc<dyn ByteSearcher>),
        },
        #[cfg(target_arch = "x86_64")]
        Backend::Avx2 => match arity {
            1 => x86::avx2::memchr::One::new(n[0]).map(|s| Arc::new(s) as Arc<dyn ByteSearcher>),
            2 => x86::avx2::memchr::Two::new(n[0], n[1]).map(|s| Arc::new(s) as Arc<dyn ByteSearcher>),
            _ => x86::avx2::memchr::Three::new(n[0], n[1], n[2]).map(|s| Arc::new(s) as Arc<dyn ByteSearcher>),
        },
        #[cfg(target_arch = "aarch64")]
        Backend::Neon => match arity {
            1 => arm::neon::memchr::One::new(n[0]).map(|s| Arc::new(s) as Arc<dyn ByteSearcher>),
            2 => arm::neon::memchr::Two::new(n[0], n[1]).map(|s| Arc::new(s) as Arc<dyn ByteSearcher>),
            _ => arm::neon::memchr::Three::new(n[0], n[1], n[2]).map(|s| Arc::new(s) as Arc<dyn ByteSearcher>),
        },
        #[allow(unreachable_patterns)]
        _ => None,
    }
}

// ---------------------------------------------------------------------------
// substring iterators behind one interface

trait DynSub: Send {
    fn next(&mut self) -> Result<Option<usize>, String>;
    fn hint(&self) -> Result<(usize, Option<usize>), String>;
    fn fork(&self) -> Result<Box<dyn DynSub>, String>;
    /// `into_owned()`; the result no longer keeps the finder alive. The flag
    /// says whether a conversion happened (false: this copy has no `alloc`).
    fn own(self: Box<Self>) -> Result<(Box<dyn DynSub>, bool), String>;
}

struct FwdIt {
    it: memmem::FindIter<'static, 'static>,
    keep: Option<Arc<memmem::Finder<'static>>>,
}

struct RevIt {
    it: memmem::FindRevIter<'static, 'static>,
    keep: Option<Arc<memmem::FinderRev<'static>>>,
}

impl DynSub for FwdIt {
    fn next(&mut self) -> Result<Option<usize>, String> {
        lib(|| self.it.next())
    }
    fn hint(&self) -> Result<(usize, Option<usize>), String> {
        lib(|| self.it.size_hint())
    }
    fn fork(&self) -> Result<Box<dyn DynSub>, String> {
        let it = lib(|| self.it.clone())?;
        Ok(Box::new(FwdIt { it, keep: self.keep.clone() }))
    }
    fn own(self: Box<Self>) -> Result<(Box<dyn DynSub>, bool), String> {
        if_alloc! {
            let FwdIt { it, keep } = *self;
            let it = lib(move || it.into_owned())?;
            // the owned iterator must not depend on the finder it came from
            drop(keep);
            return Ok((Box::new(FwdIt { it, keep: None }), true));
        }
        #[allow(unreachable_code)]
        Ok((self, false))
    }
}

impl DynSub for RevIt {
    fn next(&mut self) -> Result<Option<usize>, String> {
        lib(|| self.it.next())
    }
    fn hint(&self) -> Result<(usize, Option<usize>), String> {
        lib(|| self.it.size_hint())
    }
    fn fork(&self) -> Result<Box<dyn DynSub>, String> {
        let it = lib(|| self.it.clone())?;
        Ok(Box::new(RevIt { it, keep: self.keep.clone() }))
    }
    fn own(self: Box<Self>) -> Result<(Box<dyn DynSub>, bool), String> {
        if_alloc! {
            let RevIt { it, keep } = *self;
            let it = lib(move || it.into_owned())?;
            drop(keep);
            return Ok((Box::new(RevIt { it, keep: None }), true));
        }
        #[allow(unreachable_code)]
        Ok((self, false))
    }
}

// ---------------------------------------------------------------------------
// simulated objects (real object + its model state)

enum Obj {
    BIter { it: Box<dyn DynIter>, model: VecDeque<usize>, single: bool },
    Fwd { f: Arc<memmem::Finder<'static>>, needle: BufId, cfg: FinderCfg, owned: bool },
    Rev { f: Arc<memmem::FinderRev<'static>>, needle: BufId, owned: bool },
    Sub {
        it: Box<dyn DynSub>,
        list: Arc<Vec<usize>>,
        idx: usize,
        inert: Option<u32>,
        owned: bool,
        /// how to build an iterator like this one from scratch
        recipe: SubRecipe,
        /// number of next() calls made on this lineage so far
        calls: usize,
        /// (call index, k): the forced give-up fault was armed with countdown
        /// k before that call; replayed on witnesses so that they carry the
        /// same prefilter-state history
        inert_log: Vec<(usize, u32)>,
        /// the witness' own forced-give-up countdown
        witness_inert: Option<u32>,
        /// for forks (clone / into_owned): an iterator that was brought to
        /// the fork point WITHOUT clone/into_owned, by replaying the calls
        witness: Option<Box<dyn DynSub>>,
    },
}

#[derive(Clone)]
struct SubRecipe {
    rev: bool,
    hay: BufId,
    needle: BufId,
    /// None: top-level memmem::find_iter / rfind_iter
    cfg: Option<FinderCfg>,
}

struct Msg {
    obj: Obj,
    seen_new: u8,
}

struct Chan {
    q: VecDeque<Msg>,
    sender_done: bool,
    /// knowledge released into this channel's lock by whoever last held it
    seen_new: u8,
}

pub struct Plumbing {
    /// chans[from][to]
    chans: Vec<Vec<Shared<Chan>>>,
}

// ---------------------------------------------------------------------------

fn build_fwd(cfg: &FinderCfg, needle: &'static [u8], needle_bytes: &[u8]) -> Result<memmem::Finder<'static>, String> {
    let mut b = memmem::FinderBuilder::new();
    b.prefilter(if cfg.prefilter { memmem::Prefilter::Auto } else { memmem::Prefilter::None });
    match model::ranker_table(&cfg.ranker, needle_bytes) {
        None => lib(|| b.build_forward(needle)),
        Some(t) => {
            let r = TableRanker(t);
            lib(|| b.build_forward_with_ranker(r, needle))
        }
    }
}

fn hint_ok(h: (usize, Option<usize>), remaining: usize) -> bool {
    h.0 <= remaining && h.1.map_or(true, |u| u >= remaining)
}

/// Outcome of one operation.
struct Out {
    res: Res,
    /// the model's answer, when the property defines one
    expect: Option<Res>,
    /// which violation class a disagreement with `expect` belongs to
    kind: VKind,
    allow_alloc: bool,
    /// a panic here is the documented one / outside documented preconditions
    panic_ok: bool,
    /// the documented panic is REQUIRED here
    panic_required: bool,
    kind_name: &'static str,
}

impl Out {
    fn new(kind_name: &'static str, res: Res) -> Out {
        Out {
            res,
            expect: None,
            kind: VKind::Model,
            allow_alloc: false,
            panic_ok: false,
            panic_required: false,
            kind_name,
        }
    }
    fn expect(mut self, kind: VKind, e: Res) -> Out {
        self.expect = Some(e);
        self.kind = kind;
        self
    }
    fn skip(kind_name: &'static str) -> Out {
        Out::new(kind_name, Res::Skip)
    }
}

fn res_of<T>(r: Result<T, String>, f: impl FnOnce(T) -> Res) -> Res {
    match r {
        Ok(v) => f(v),
        Err(m) => Res::Panic(m),
    }
}

pub struct ThreadResult {
    pub log: Vec<Res>,
}

struct Th<'a> {
    w: &'a World,
    ep: &'a Episode,
    tid: usize,
    objs: Vec<Option<Obj>>,
    plumbing: &'a Plumbing,
    is_miri: bool,
}

fn arena_slice(i: usize) -> &'static [u8] {
    crate::ARENA.read().unwrap().slice(i)
}

impl<'a> Th<'a> {
    fn bytes(&self, i: BufId) -> &'a [u8] {
        &self.ep.bufs[i].bytes
    }

    fn put(&mut self, slot: Slot, o: Obj) {
        if slot >= self.objs.len() {
            self.objs.resize_with(slot + 1, || None);
        }
        self.objs[slot] = Some(o);
    }

    fn take(&mut self, slot: Slot) -> Option<Obj> {
        if slot < self.objs.len() {
            self.objs[slot].take()
        } else {
            None
        }
    }

    fn get(&mut self, slot: Slot) -> Option<&mut Obj> {
        if slot < self.objs.len() {
            self.objs[slot].as_mut()
        } else {
            None
        }
    }

    fn run_op(&mut self, op: &Op) -> Out {
        match op {
            Op::Byte { be, f, arity, n, hay, raw } => self.op_byte(*be, *f, *arity, *n, *hay, *raw),
            Op::IterNew { be, arity, n, hay, dst } => {
                let h = arena_slice(*hay);
                let s = match make_searcher(*be, *arity, *n) {
                    None => return Out::skip("iter_new"),
                    Some(s) => s,
                };
                let it = match catch_unwind(AssertUnwindSafe(|| s.iter(h))) {
                    Ok(it) => it,
                    Err(e) => return Out::new("iter_new", Res::Panic(panic_msg(e))).expect(VKind::ByteIter, Res::Unit),
                };
                let model = model::byte_positions(self.bytes(*hay), (*arity).clamp(1, 3), n);
                self.put(*dst, Obj::BIter { it, model, single: *arity <= 1 });
                Out::new("iter_new", Res::Unit)
            }
            Op::IterNext { it } => match self.get(*it) {
                Some(Obj::BIter { it, model, .. }) => {
                    let r = it.next();
                    let e = model.pop_front();
                    Out::new("iter_next", res_of(r, Res::opt)).expect(VKind::ByteIter, Res::opt(e))
                }
                _ => Out::skip("iter_next"),
            },
            Op::IterNextBack { it } => match self.get(*it) {
                Some(Obj::BIter { it, model, .. }) => {
                    let r = it.next_back();
                    let e = model.pop_back();
                    Out::new("iter_next_back", res_of(r, Res::opt)).expect(VKind::ByteIter, Res::opt(e))
                }
                _ => Out::skip("iter_next_back"),
            },
            Op::IterHint { it } => match self.get(*it) {
                Some(Obj::BIter { it, model, .. }) => {
                    let r = it.hint();
                    let remaining = model.len();
                    match r {
                        Ok(h) => {
                            let res = Res::Hint(h.0 as u64, h.1.map(|x| x as u64));
                            if hint_ok(h, remaining) {
                                Out::new("iter_hint", res)
                            } else {
                                // report as a mismatch against the exact bracket
                                Out::new("iter_hint", res).expect(
                                    VKind::ByteIter,
                                    Res::Hint(remaining as u64, Some(remaining as u64)),
                                )
                            }
                        }
                        Err(m) => Out::new("iter_hint", Res::Panic(m))
                            .expect(VKind::ByteIter, Res::Hint(remaining as u64, Some(remaining as u64))),
                    }
                }
                _ => Out::skip("iter_hint"),
            },
            Op::IterClone { it, dst } => {
                let forked = match self.get(*it) {
                    Some(Obj::BIter { it, model, single }) => Some((it.fork(), model.clone(), *single)),
                    _ => None,
                };
                match forked {
                    Some((Ok(it2), model, single)) => {
                        self.put(*dst, Obj::BIter { it: it2, model, single });
                        Out::new("iter_clone", Res::Unit)
                    }
                    Some((Err(m), _, _)) => Out::new("iter_clone", Res::Panic(m)).expect(VKind::ByteIter, Res::Unit),
                    None => Out::skip("iter_clone"),
                }
            }
            Op::IterCount { it } => match self.take(*it) {
                Some(Obj::BIter { it, model, single }) => {
                    let r = it.count();
                    let kind = if single { VKind::Count } else { VKind::ByteIter };
                    Out::new("iter_count", res_of(r, |c| Res::Count(c as u64)))
                        .expect(kind, Res::Count(model.len() as u64))
                }
                Some(o) => {
                    self.put(*it, o);
                    Out::skip("iter_count")
                }
                None => Out::skip("iter_count"),
            },
            Op::Mem { rev, hay, needle } => {
                let h = arena_slice(*hay);
                let n = arena_slice(*needle);
                if *rev {
                    let r = lib(|| memmem::rfind(h, n));
                    Out::new("memmem_rfind", res_of(r, Res::opt))
                        .expect(VKind::Model, Res::opt(model::rfind(self.bytes(*hay), self.bytes(*needle))))
                } else {
                    let r = lib(|| memmem::find(h, n));
                    Out::new("memmem_find", res_of(r, Res::opt))
                        .expect(VKind::Model, Res::opt(model::find(self.bytes(*hay), self.bytes(*needle))))
                }
            }
            Op::FinderNew { rev, needle, cfg, dst } => {
                let n = arena_slice(*needle);
                if *rev {
                    let r = lib(|| memmem::FinderBuilder::new().build_reverse(n));
                    match r {
                        Ok(f) => {
                            self.put(*dst, Obj::Rev { f: Arc::new(f), needle: *needle, owned: false });
                            Out::new("finder_rev_new", Res::Unit)
                        }
                        Err(m) => Out::new("finder_rev_new", Res::Panic(m)),
                    }
                } else {
                    match build_fwd(cfg, n, self.bytes(*needle)) {
                        Ok(f) => {
                            self.put(
                                *dst,
                                Obj::Fwd { f: Arc::new(f), needle: *needle, cfg: cfg.clone(), owned: false },
                            );
                            Out::new("finder_new", Res::Unit)
                        }
                        Err(m) => Out::new("finder_new", Res::Panic(m)),
                    }
                }
            }
            Op::FinderFind { f, hay, via_ref } => self.op_finder_find(*f, *hay, *via_ref),
            Op::FinderNeedle { f } => {
                let (got, want) = match self.get(*f) {
                    Some(Obj::Fwd { f, needle, .. }) => (lib(|| f.needle().to_vec()), *needle),
                    Some(Obj::Rev { f, needle, .. }) => (lib(|| f.needle().to_vec()), *needle),
                    _ => return Out::skip("finder_needle"),
                };
                // `to_vec` allocates in the harness' closure, not in the library
                let mut o = Out::new("finder_needle", res_of(got, Res::Bytes))
                    .expect(VKind::History, Res::Bytes(self.bytes(want).to_vec()));
                o.allow_alloc = true;
                o
            }
            Op::FinderRepeat { f, hay, times } => {
                let h = arena_slice(*hay);
                let times = *times;
                match self.get(*f) {
                    Some(Obj::Fwd { f, needle, cfg, .. }) => {
                        let f = f.clone();
                        let (needle, cfg) = (*needle, cfg.clone());
                        let nb = self.bytes(needle);
                        let nb_static: &'static [u8] = unsafe { &*(nb as *const [u8]) };
                        let fresh = match build_fwd(&cfg, nb_static, nb) {
                            Ok(ff) => res_of(lib(|| ff.find(h)), Res::opt),
                            Err(m) => Res::Panic(m),
                        };
                        // Some(i): the i-th answer differed from the first
                        let r = lib(|| {
                            let first = f.find(h);
                            let mut i = 1u64;
                            while i < times {
                                if f.find(h) != first {
                                    return (first, Some(i));
                                }
                                i += 1;
                            }
                            (first, None)
                        });
                        self.w.stats.lock().unwrap().inner_evals += times;
                        match r {
                            Ok((first, None)) => Out::new("finder_repeat", Res::opt(first)).expect(VKind::History, fresh),
                            Ok((first, Some(i))) => {
                                self.w.violate(
                                    VKind::History,
                                    format!("finder_repeat: search number {} with the same finder and haystack returned something else than the first ({:?})", i, first),
                                );
                                Out::new("finder_repeat", Res::opt(first))
                            }
                            Err(m) => Out::new("finder_repeat", Res::Panic(m)).expect(VKind::History, fresh),
                        }
                    }
                    _ => Out::skip("finder_repeat"),
                }
            }
            Op::FinderClone { f, dst } => {
                let made = match self.get(*f) {
                    Some(Obj::Fwd { f, needle, cfg, owned }) => {
                        let f2 = lib(|| (**f).clone());
                        Some((f2.map(|f2| Obj::Fwd { f: Arc::new(f2), needle: *needle, cfg: cfg.clone(), owned: *owned }), *owned))
                    }
                    Some(Obj::Rev { f, needle, owned }) => {
                        let f2 = lib(|| (**f).clone());
                        Some((f2.map(|f2| Obj::Rev { f: Arc::new(f2), needle: *needle, owned: *owned }), *owned))
                    }
                    _ => None,
                };
                match made {
                    None => Out::skip("finder_clone"),
                    Some((Ok(o), owned)) => {
                        self.put(*dst, o);
                        let mut out = Out::new("finder_clone", Res::Unit);
                        out.allow_alloc = owned;
                        out
                    }
                    Some((Err(m), _)) => Out::new("finder_clone", Res::Panic(m)),
                }
            }
            Op::FinderOwn { f } => self.op_finder_own(*f),
            Op::KillNeedle { buf } => {
                // without `alloc` there is no into_owned(): everything still
                // borrows the needle, so the caller may not free it
                if !HAS_ALLOC {
                    return Out::skip("kill_needle");
                }
                if crate::ARENA.write().unwrap().kill(*buf) {
                    self.w.stats.lock().unwrap().needle_kills += 1;
                    self.w.faults_fired.fetch_add(1, std::sync::atomic::Ordering::Relaxed);
                    Out::new("kill_needle", Res::Unit)
                } else {
                    Out::skip("kill_needle")
                }
            }
            Op::FIterNew { f, rev, hay, needle, dst } => self.op_fiter_new(*f, *rev, *hay, *needle, *dst),
            Op::FIterNext { it } => match self.get(*it) {
                Some(Obj::Sub { it, list, idx, inert, calls, witness, witness_inert, .. }) => {
                    with_ctx(|c| c.inert_countdown = *inert);
                    let r = it.next();
                    *inert = with_ctx(|c| c.inert_countdown.take()).flatten();
                    *calls += 1;
                    let e = list.get(*idx).copied();
                    if e.is_some() {
                        *idx += 1;
                    }
                    let res = res_of(r, Res::opt);
                    // a fork (clone / into_owned) must behave exactly like an
                    // iterator that reached the fork point the ordinary way
                    if let Some(wit) = witness.as_mut() {
                        with_ctx(|c| c.inert_countdown = *witness_inert);
                        let wr = res_of(wit.next(), Res::opt);
                        *witness_inert = with_ctx(|c| c.inert_countdown.take()).flatten();
                        if wr != res {
                            return Out::new("fiter_next", res).expect(VKind::History, wr);
                        }
                    }
                    Out::new("fiter_next", res).expect(VKind::SubIter, Res::opt(e))
                }
                _ => Out::skip("fiter_next"),
            },
            Op::FIterHint { it } => match self.get(*it) {
                Some(Obj::Sub { it, list, idx, .. }) => {
                    let remaining = list.len() - *idx;
                    match it.hint() {
                        Ok(h) => {
                            let res = Res::Hint(h.0 as u64, h.1.map(|x| x as u64));
                            if hint_ok(h, remaining) {
                                Out::new("fiter_hint", res)
                            } else {
                                Out::new("fiter_hint", res)
                                    .expect(VKind::SubIter, Res::Hint(remaining as u64, Some(remaining as u64)))
                            }
                        }
                        Err(m) => Out::new("fiter_hint", Res::Panic(m))
                            .expect(VKind::SubIter, Res::Hint(remaining as u64, Some(remaining as u64))),
                    }
                }
                _ => Out::skip("fiter_hint"),
            },
            Op::FIterClone { it, dst } => {
                let forked = match self.get(*it) {
                    Some(Obj::Sub { it, list, idx, inert, owned, recipe, calls, inert_log, .. }) => {
                        Some((it.fork(), list.clone(), *idx, *inert, *owned, recipe.clone(), *calls, inert_log.clone()))
                    }
                    _ => None,
                };
                match forked {
                    Some((Ok(it2), list, idx, inert, owned, recipe, calls, inert_log)) => {
                        let (witness, witness_inert) = self.make_witness(&recipe, calls, &inert_log);
                        self.put(
                            *dst,
                            Obj::Sub { it: it2, list, idx, inert, owned, recipe, calls, inert_log, witness, witness_inert },
                        );
                        let mut o = Out::new("fiter_clone", Res::Unit);
                        o.allow_alloc = owned;
                        o
                    }
                    Some((Err(m), ..)) => Out::new("fiter_clone", Res::Panic(m)).expect(VKind::History, Res::Unit),
                    None => Out::skip("fiter_clone"),
                }
            }
            Op::FIterOwn { it } => match self.take(*it) {
                Some(Obj::Sub { it: real, list, idx, inert, owned, recipe, calls, inert_log, witness, witness_inert }) => match real.own() {
                    Ok((it2, converted)) => {
                        let (witness, witness_inert) = if converted {
                            self.make_witness(&recipe, calls, &inert_log)
                        } else {
                            (witness, witness_inert)
                        };
                        self.put(
                            *it,
                            Obj::Sub {
                                it: it2,
                                list,
                                idx,
                                inert,
                                owned: owned || converted,
                                recipe,
                                calls,
                                inert_log,
                                witness,
                                witness_inert,
                            },
                        );
                        if converted {
                            let mut o = Out::new("fiter_own", Res::Unit);
                            o.allow_alloc = true;
                            o
                        } else {
                            Out::skip("fiter_own")
                        }
                    }
                    Err(m) => Out::new("fiter_own", Res::Panic(m)).expect(VKind::History, Res::Unit),
                },
                Some(o) => {
                    self.put(*it, o);
                    Out::skip("fiter_own")
                }
                None => Out::skip("fiter_own"),
            },
            Op::FIterForceInert { it, k } => match self.get(*it) {
                Some(Obj::Sub { inert, calls, inert_log, witness, witness_inert, .. }) => {
                    *inert = Some(*k);
                    inert_log.push((*calls, *k));
                    if witness.is_some() {
                        *witness_inert = Some(*k);
                    }
                    Out::new("fiter_force_inert", Res::Unit)
                }
                _ => Out::skip("fiter_force_inert"),
            },
            Op::ArmInert { k } => {
                with_ctx(|c| c.inert_countdown = Some(*k));
                // stays armed for the next library call only (cleared by run loop)
                Out::new("arm_inert", Res::Unit)
            }
            Op::Drop { s } => {
                let o = self.take(*s);
                let had = o.is_some();
                drop(o);
                Out::new("drop", if had { Res::Unit } else { Res::Skip })
            }
            Op::Send { s, to } => {
                if *to <= self.tid || *to >= self.ep.threads.len() {
                    return Out::skip("send");
                }
                match self.take(*s) {
                    None => Out::skip("send"),
                    Some(obj) => {
                        let seen = with_ctx(|c| c.seen_new).unwrap_or(0);
                        let ch = &self.plumbing.chans[self.tid][*to];
                        let got = ch.with(|c| {
                            c.q.push_back(Msg { obj, seen_new: seen });
                            c.seen_new |= seen;
                            c.seen_new
                        });
                        with_ctx(|c| c.seen_new |= got);
                        self.w.stats.lock().unwrap().sends += 1;
                        Out::new("send", Res::Unit)
                    }
                }
            }
            Op::Share { s, to } => {
                if *to <= self.tid || *to >= self.ep.threads.len() {
                    return Out::skip("share");
                }
                let dup = match self.get(*s) {
                    Some(Obj::Fwd { f, needle, cfg, owned }) => {
                        Some(Obj::Fwd { f: f.clone(), needle: *needle, cfg: cfg.clone(), owned: *owned })
                    }
                    Some(Obj::Rev { f, needle, owned }) => Some(Obj::Rev { f: f.clone(), needle: *needle, owned: *owned }),
                    _ => None,
                };
                match dup {
                    None => Out::skip("share"),
                    Some(obj) => {
                        let seen = with_ctx(|c| c.seen_new).unwrap_or(0);
                        let ch = &self.plumbing.chans[self.tid][*to];
                        let got = ch.with(|c| {
                            c.q.push_back(Msg { obj, seen_new: seen });
                            c.seen_new |= seen;
                            c.seen_new
                        });
                        with_ctx(|c| c.seen_new |= got);
                        self.w.stats.lock().unwrap().shares += 1;
                        Out::new("share", Res::Unit)
                    }
                }
            }
            Op::Recv { from, dst } => {
                if *from >= self.tid {
                    return Out::skip("recv");
                }
                let ch = &self.plumbing.chans[*from][self.tid];
                let mine = with_ctx(|c| c.seen_new).unwrap_or(0);
                let got = ch.wait(|c| {
                    if let Some(m) = c.q.pop_front() {
                        c.seen_new |= mine;
                        Some((Some(m), c.seen_new))
                    } else if c.sender_done {
                        c.seen_new |= mine;
                        Some((None, c.seen_new))
                    } else {
                        None
                    }
                });
                match got {
                    (Some(m), seen) => {
                        with_ctx(|c| c.seen_new |= m.seen_new | seen);
                        self.put(*dst, m.obj);
                        self.w.stats.lock().unwrap().recvs += 1;
                        Out::new("recv", Res::Unit)
                    }
                    (None, seen) => {
                        with_ctx(|c| c.seen_new |= seen);
                        Out::skip("recv")
                    }
                }
            }
            Op::TwoWay { rev, hay, needle, needle2 } => {
                let h = arena_slice(*hay);
                let n = arena_slice(*needle);
                let n2 = needle2.map(arena_slice).unwrap_or(n);
                let mut o = if *rev {
                    let r = lib(|| m_all::twoway::FinderRev::new(n).rfind(h, n2));
                    Out::new("twoway_rfind", res_of(r, Res::opt))
                } else {
                    let r = lib(|| m_all::twoway::Finder::new(n).find(h, n2));
                    Out::new("twoway_find", res_of(r, Res::opt))
                };
                if needle2.is_some() {
                    // outside the documented contract: any answer, or a panic
                    o.panic_ok = true;
                    if !matches!(o.res, Res::Panic(_)) {
                        o.res = Res::Unspecified;
                    }
                } else {
                    let e = if *rev {
                        model::rfind(self.bytes(*hay), self.bytes(*needle))
                    } else {
                        model::find(self.bytes(*hay), self.bytes(*needle))
                    };
                    o = o.expect(VKind::Model, Res::opt(e));
                }
                o
            }
            Op::RabinKarp { rev, hay, needle, needle2 } => {
                let h = arena_slice(*hay);
                let n = arena_slice(*needle);
                let n2 = needle2.map(arena_slice).unwrap_or(n);
                let mut o = if *rev {
                    let r = lib(|| m_all::rabinkarp::FinderRev::new(n).rfind(h, n2));
                    Out::new("rabinkarp_rfind", res_of(r, Res::opt))
                } else {
                    let r = lib(|| m_all::rabinkarp::Finder::new(n).find(h, n2));
                    Out::new("rabinkarp_find", res_of(r, Res::opt))
                };
                if needle2.is_some() {
                    o.panic_ok = true;
                    if !matches!(o.res, Res::Panic(_)) {
                        o.res = Res::Unspecified;
                    }
                } else {
                    let e = if *rev {
                        model::rfind(self.bytes(*hay), self.bytes(*needle))
                    } else {
                        model::find(self.bytes(*hay), self.bytes(*needle))
                    };
                    o = o.expect(VKind::Model, Res::opt(e));
                }
                o
            }
            #[allow(unused_variables)]
            Op::ShiftOr { hay, needle } => {
                #[allow(unused_mut, unused_assignments)]
                let mut out = Out::skip("shiftor");
                if_alloc! {
                    let h = arena_slice(*hay);
                    let n = arena_slice(*needle);
                    let r = lib(|| m_all::shiftor::Finder::new(n).map(|f| f.find(h)));
                    let nb = self.bytes(*needle);
                    let e = if nb.len() > 15 { Res::Skip } else { Res::opt(model::find(self.bytes(*hay), nb)) };
                    out = Out::new(
                        "shiftor",
                        res_of(r, |x| match x {
                            None => Res::Skip,
                            Some(x) => Res::opt(x),
                        }),
                    )
                    .expect(VKind::Model, e);
                    out.allow_alloc = true;
                }
                out
            }
            Op::Packed { be, pair, prefilter, hay, needle, needle2 } => {
                self.op_packed(*be, *pair, *prefilter, *hay, *needle, *needle2)
            }
            Op::Cmp { f, a, b } => {
                let x = arena_slice(*a);
                let y = arena_slice(*b);
                let (xb, yb) = (self.bytes(*a), self.bytes(*b));
                let (r, e) = match f {
                    CmpFn::IsEqual => (lib(|| m_all::is_equal(x, y)), xb == yb),
                    CmpFn::IsPrefix => (lib(|| m_all::is_prefix(x, y)), xb.starts_with(yb)),
                    CmpFn::IsSuffix => (lib(|| m_all::is_suffix(x, y)), xb.ends_with(yb)),
                };
                Out::new("cmp", res_of(r, Res::Bool)).expect(VKind::Model, Res::Bool(e))
            }
            Op::PairNew { needle, ranker } => {
                let n = arena_slice(*needle);
                let r = match model::ranker_table(ranker, self.bytes(*needle)) {
                    None => lib(|| m_all::packedpair::Pair::new(n)),
                    Some(t) => {
                        let rk = TableRanker(t);
                        lib(|| m_all::packedpair::Pair::with_ranker(n, rk))
                    }
                };
                Out::new("pair_new", res_of(r, |p| Res::Pair(p.map(|p| (p.index1(), p.index2())))))
            }
            Op::PairIdx { needle, i1, i2 } => {
                let n = arena_slice(*needle);
                let r = lib(|| m_all::packedpair::Pair::with_indices(n, *i1, *i2));
                Out::new("pair_idx", res_of(r, |p| Res::Pair(p.map(|p| (p.index1(), p.index2())))))
            }
            #[allow(unused_variables)]
            Op::HugeCount { be, len, holes } => {
                #[cfg(miri)]
                {
                    return Out::skip("huge_count");
                }
                #[cfg(not(miri))]
                {
                    let mut huge = match crate::arena::Huge::new(*len as usize) {
                        Some(h) => h,
                        None => return Out::skip("huge_count"),
                    };
                    for &at in holes {
                        huge.write(at as usize, &[1]);
                    }
                    let h = huge.slice();
                    let s = match make_searcher(*be, 1, [0, 0, 0]) {
                        None => return Out::skip("huge_count"),
                        Some(s) => s,
                    };
                    let r = lib(|| s.count(h));
                    let expect = *len - holes.len() as u64;
                    self.w.stats.lock().unwrap().inner_evals += *len / 1024;
                    match r {
                        Ok(Some(c)) => Out::new("huge_count", Res::Count(c as u64)).expect(VKind::Count, Res::Count(expect)),
                        Ok(None) => Out::skip("huge_count"),
                        Err(m) => Out::new("huge_count", Res::Panic(m)).expect(VKind::Count, Res::Count(expect)),
                    }
                }
            }
            #[allow(unused_variables)]
            Op::HugeFindIter { needle, len, at } => {
                #[cfg(miri)]
                {
                    return Out::skip("huge_find_iter");
                }
                #[cfg(not(miri))]
                {
                    let nb = self.bytes(*needle);
                    let mut huge = match crate::arena::Huge::new(*len as usize) {
                        Some(h) => h,
                        None => return Out::skip("huge_find_iter"),
                    };
                    huge.write(*at as usize, nb);
                    let h = huge.slice();
                    let n = arena_slice(*needle);
                    let r = lib(|| {
                        let mut it = memmem::find_iter(h, n);
                        let a = it.next();
                        let b = it.next();
                        let c = it.next();
                        (a, b, c)
                    });
                    self.w.stats.lock().unwrap().inner_evals += *len / 1024;
                    let expect = Res::List(vec![*at, u64::MAX, u64::MAX]);
                    let enc = |x: Option<usize>| x.map_or(u64::MAX, |v| v as u64);
                    Out::new("huge_find_iter", res_of(r, |(a, b, c)| Res::List(vec![enc(a), enc(b), enc(c)])))
                        .expect(VKind::SubIter, expect)
                }
            }
            Op::ByteAll { f, arity, n, hay } => self.op_byte_all(*f, *arity, *n, *hay),
            Op::PackedAll { hay, needle } => self.op_packed_all(*hay, *needle),
            Op::Lockstep { needle, cfgs, hays, iter, inert_at } => {
                self.op_lockstep(*needle, cfgs, hays, *iter, inert_at)
            }
            Op::Cost { f, hay, needle, cfg } => self.op_cost(*f, *hay, *needle, cfg.as_ref()),
            Op::Refill { buf } => {
                crate::ARENA.write().unwrap().refill(*buf, self.bytes(*buf));
                Out::new("refill", Res::Unit)
            }
        }
    }

    fn op_byte(&mut self, be: Backend, f: ByteFn, arity: u8, n: [u8; 3], hay: BufId, raw: RawForm) -> Out {
        let arity = arity.clamp(1, 3);
        let h = arena_slice(hay);
        let hb = self.bytes(hay);
        let s = match make_searcher(be, arity, n) {
            None => return Out::skip("byte"),
            Some(s) => s,
        };
        let (sp, ep) = (h.as_ptr(), h.as_ptr().wrapping_add(h.len()));
        let (rs, re, empty_expected) = match raw {
            RawForm::Slice | RawForm::Raw => (sp, ep, false),
            RawForm::RawEmpty => (sp, sp, true),
            RawForm::RawInverted => (ep, sp, true),
        };
        let to_idx = |p: PtrRes| p.map(|p| (p as usize).wrapping_sub(sp as usize));
        match f {
            ByteFn::Find | ByteFn::Rfind => {
                let fwd = matches!(f, ByteFn::Find);
                let name = if fwd { "byte_find" } else { "byte_rfind" };
                let r: Result<Option<Option<usize>>, String> = match raw {
                    RawForm::Slice => lib(|| Some(if fwd { s.find(h) } else { s.rfind(h) })),
                    _ => lib(|| unsafe {
                        if fwd {
                            s.find_raw(rs, re).map(to_idx)
                        } else {
                            s.rfind_raw(rs, re).map(to_idx)
                        }
                    }),
                };
                let e = if empty_expected || (h.is_empty() && raw != RawForm::Slice) {
                    None
                } else if fwd {
                    model::byte_find(hb, arity, &n)
                } else {
                    model::byte_rfind(hb, arity, &n)
                };
                match r {
                    Ok(None) => {
                        // no raw form on this searcher: use the slice form
                        let r = lib(|| if fwd { s.find(h) } else { s.rfind(h) });
                        let e = if fwd { model::byte_find(hb, arity, &n) } else { model::byte_rfind(hb, arity, &n) };
                        Out::new(name, res_of(r, Res::opt)).expect(VKind::Model, Res::opt(e))
                    }
                    Ok(Some(x)) => Out::new(name, Res::opt(x)).expect(VKind::Model, Res::opt(e)),
                    Err(m) => Out::new(name, Res::Panic(m)).expect(VKind::Model, Res::opt(e)),
                }
            }
            ByteFn::Count => {
                let r: Result<Option<usize>, String> = match raw {
                    RawForm::Slice => lib(|| s.count(h)),
                    _ => lib(|| unsafe { s.count_raw(rs, re) }),
                };
                let r = match r {
                    Ok(None) if raw != RawForm::Slice => lib(|| s.count(h)).map(|x| (x, false)),
                    Ok(x) => Ok((x, empty_expected)),
                    Err(m) => Err(m),
                };
                match r {
                    Ok((None, _)) => Out::skip("byte_count"),
                    Ok((Some(c), was_empty)) => {
                        let e = if was_empty { 0 } else { model::byte_count(hb, arity, &n) };
                        let kind = if arity == 1 { VKind::Count } else { VKind::Model };
                        Out::new("byte_count", Res::Count(c as u64)).expect(kind, Res::Count(e as u64))
                    }
                    Err(m) => {
                        let e = model::byte_count(hb, arity, &n);
                        Out::new("byte_count", Res::Panic(m)).expect(VKind::Count, Res::Count(e as u64))
                    }
                }
            }
        }
    }

    /// The same byte search on every backend this build/CPU offers.
    fn op_byte_all(&mut self, f: ByteFn, arity: u8, n: [u8; 3], hay: BufId) -> Out {
        let arity = arity.clamp(1, 3);
        let h = arena_slice(hay);
        let mut first: Option<(Backend, Res)> = None;
        let mut served = 0;
        for be in [Backend::Top, Backend::All, Backend::Sse2, Backend::Avx2, Backend::Neon] {
            let s = match make_searcher(be, arity, n) {
                None => continue,
                Some(s) => s,
            };
            let r = match f {
                ByteFn::Find => res_of(lib(|| s.find(h)), Res::opt),
                ByteFn::Rfind => res_of(lib(|| s.rfind(h)), Res::opt),
                ByteFn::Count => match lib(|| s.count(h)) {
                    Ok(None) => continue,
                    Ok(Some(c)) => Res::Count(c as u64),
                    Err(m) => Res::Panic(m),
                },
            };
            served += 1;
            self.w.stats.lock().unwrap().inner_evals += 1;
            match &first {
                None => first = Some((be, r)),
                Some((be0, r0)) => {
                    if *r0 != r {
                        self.w.violate(
                            VKind::Config,
                            format!("byte_all {:?}: {:?} returned {:?} but {:?} returned {:?}", f, be, r, be0, r0),
                        );
                    }
                }
            }
        }
        let _ = served;
        match first {
            None => Out::skip("byte_all"),
            Some((_, r)) => Out::new("byte_all", r),
        }
    }

    /// Packed-pair `find` on every vector backend available, with the same
    /// (default) pair; all must agree wherever the haystack is long enough.
    #[allow(unused_mut, unused_variables)]
    fn op_packed_all(&mut self, hay: BufId, needle: BufId) -> Out {
        let h = arena_slice(hay);
        let n = arena_slice(needle);
        let mut results: Vec<(&'static str, Res)> = Vec::new();
        #[cfg(target_arch = "x86_64")]
        {
            if let Some(f) = x86::sse2::packedpair::Finder::new(n) {
                if h.len() >= f.min_haystack_len() {
                    results.push(("sse2", res_of(lib(|| f.find(h, n)), Res::opt)));
                }
            }
            if let Some(f) = x86::avx2::packedpair::Finder::new(n) {
                if h.len() >= f.min_haystack_len() {
                    results.push(("avx2", res_of(lib(|| f.find(h, n)), Res::opt)));
                }
            }
        }
        #[cfg(target_arch = "aarch64")]
        {
            if let Some(f) = arm::neon::packedpair::Finder::new(n) {
                if h.len() >= f.min_haystack_len() {
                    results.push(("neon", res_of(lib(|| f.find(h, n)), Res::opt)));
                }
            }
        }
        // the portable answer every configuration can compute
        let portable = res_of(lib(|| m_all::twoway::Finder::new(n).find(h, n)), Res::opt);
        for (name, r) in &results {
            if *r != portable {
                self.w.violate(
                    VKind::Config,
                    format!("packed_all: {} packed-pair find returned {:?} but portable Two-Way returned {:?}", name, r, portable),
                );
            }
        }
        Out::new("packed_all", portable)
    }

    fn op_finder_find(&mut self, slot: Slot, hay: BufId, via_ref: bool) -> Out {
        let h = arena_slice(hay);
        let hb = self.bytes(hay);
        match self.get(slot) {
            Some(Obj::Fwd { f, needle, cfg, .. }) => {
                let f = f.clone();
                let (needle, cfg) = (*needle, cfg.clone());
                // the forced give-up fault (ArmInert) must hit the reference
                // search at the same point as the search under test
                let armed = with_ctx(|c| c.inert_countdown).flatten();
                let r = if via_ref { lib(|| memmem::Finder::as_ref(&f).find(h)) } else { lib(|| f.find(h)) };
                with_ctx(|c| c.inert_countdown = armed);
                let nb = self.bytes(needle);
                // history independence: a freshly built finder for the same
                // needle (built from the harness' own copy, the original
                // buffer may be dead) must answer the same
                let fresh = {
                    let nb_static: &'static [u8] = unsafe { &*(nb as *const [u8]) };
                    match build_fwd(&cfg, nb_static, nb) {
                        Ok(ff) => lib(|| ff.find(h)),
                        Err(m) => Err(m),
                    }
                };
                with_ctx(|c| c.inert_countdown = None);
                let res = res_of(r, Res::opt);
                let fresh = res_of(fresh, Res::opt);
                let m = Res::opt(model::find(hb, nb));
                if res != fresh {
                    return Out::new("finder_find", res).expect(VKind::History, fresh);
                }
                Out::new("finder_find", res).expect(VKind::Model, m)
            }
            Some(Obj::Rev { f, needle, .. }) => {
                let f = f.clone();
                let needle = *needle;
                let r = if via_ref { lib(|| memmem::FinderRev::as_ref(&f).rfind(h)) } else { lib(|| f.rfind(h)) };
                let nb = self.bytes(needle);
                let fresh = lib(|| memmem::FinderRev::new(nb).rfind(h));
                let res = res_of(r, Res::opt);
                let fresh = res_of(fresh, Res::opt);
                let m = Res::opt(model::rfind(hb, nb));
                if res != fresh {
                    return Out::new("finder_rfind", res).expect(VKind::History, fresh);
                }
                Out::new("finder_rfind", res).expect(VKind::Model, m)
            }
            _ => Out::skip("finder_find"),
        }
    }

    #[allow(unused_variables)]
    fn op_finder_own(&mut self, slot: Slot) -> Out {
        #[allow(unused_mut, unused_assignments)]
        let mut out = Out::skip("finder_own");
        if_alloc! {
            match self.take(slot) {
                Some(Obj::Fwd { f, needle, cfg, owned }) => {
                    let f: memmem::Finder<'static> = match Arc::try_unwrap(f) {
                        Ok(f) => f,
                        Err(a) => (*a).clone(),
                    };
                    match lib(move || f.into_owned()) {
                        Ok(f2) => {
                            self.put(slot, Obj::Fwd { f: Arc::new(f2), needle, cfg, owned: true });
                            out = Out::new("finder_own", Res::Unit);
                            out.allow_alloc = true;
                            let n = with_ctx(|c| c.allocs).unwrap_or(0);
                            if n > 0 && !owned {
                                self.w.stats.lock().unwrap().alloc_positive_controls += 1;
                            }
                        }
                        Err(m) => out = Out::new("finder_own", Res::Panic(m)).expect(VKind::History, Res::Unit),
                    }
                }
                Some(Obj::Rev { f, needle, owned }) => {
                    let f: memmem::FinderRev<'static> = match Arc::try_unwrap(f) {
                        Ok(f) => f,
                        Err(a) => (*a).clone(),
                    };
                    match lib(move || f.into_owned()) {
                        Ok(f2) => {
                            self.put(slot, Obj::Rev { f: Arc::new(f2), needle, owned: true });
                            out = Out::new("finder_rev_own", Res::Unit);
                            out.allow_alloc = true;
                            let n = with_ctx(|c| c.allocs).unwrap_or(0);
                            if n > 0 && !owned {
                                self.w.stats.lock().unwrap().alloc_positive_controls += 1;
                            }
                        }
                        Err(m) => out = Out::new("finder_rev_own", Res::Panic(m)).expect(VKind::History, Res::Unit),
                    }
                }
                Some(o) => {
                    self.put(slot, o);
                }
                None => {}
            }
        }
        out
    }

    fn op_fiter_new(&mut self, f: Option<Slot>, rev: bool, hay: BufId, needle: BufId, dst: Slot) -> Out {
        let h = arena_slice(hay);
        let hb = self.bytes(hay);
        match f {
            None => {
                let n = arena_slice(needle);
                let nb = self.bytes(needle);
                if rev {
                    match lib(|| memmem::rfind_iter(h, n)) {
                        Ok(it) => {
                            let list = Arc::new(model::rfind_all(hb, nb));
                            let recipe = SubRecipe { rev, hay, needle, cfg: None };
                            self.put(dst, Obj::Sub { it: Box::new(RevIt { it, keep: None }), list, idx: 0, inert: None, owned: false, recipe, calls: 0, inert_log: Vec::new(), witness: None, witness_inert: None });
                            Out::new("rfind_iter_new", Res::Unit)
                        }
                        Err(m) => Out::new("rfind_iter_new", Res::Panic(m)).expect(VKind::SubIter, Res::Unit),
                    }
                } else {
                    match lib(|| memmem::find_iter(h, n)) {
                        Ok(it) => {
                            let list = Arc::new(model::find_all(hb, nb));
                            let recipe = SubRecipe { rev, hay, needle, cfg: None };
                            self.put(dst, Obj::Sub { it: Box::new(FwdIt { it, keep: None }), list, idx: 0, inert: None, owned: false, recipe, calls: 0, inert_log: Vec::new(), witness: None, witness_inert: None });
                            Out::new("find_iter_new", Res::Unit)
                        }
                        Err(m) => Out::new("find_iter_new", Res::Panic(m)).expect(VKind::SubIter, Res::Unit),
                    }
                }
            }
            Some(slot) => {
                let ep = self.ep;
                let made = match self.get(slot) {
                    Some(Obj::Fwd { f, needle, cfg, .. }) => {
                        let keep = f.clone();
                        // SAFETY: `keep` lives next to the iterator and is dropped after it.
                        let r: &'static memmem::Finder<'static> = unsafe { &*Arc::as_ptr(&keep) };
                        let nb = &ep.bufs[*needle].bytes;
                        let recipe = SubRecipe { rev: false, hay, needle: *needle, cfg: Some(cfg.clone()) };
                        Some(lib(|| r.find_iter(h)).map(|it| {
                            (
                                Box::new(FwdIt { it, keep: Some(keep) }) as Box<dyn DynSub>,
                                Arc::new(model::find_all(hb, nb)),
                                recipe,
                            )
                        }))
                    }
                    Some(Obj::Rev { f, needle, .. }) => {
                        let keep = f.clone();
                        let r: &'static memmem::FinderRev<'static> = unsafe { &*Arc::as_ptr(&keep) };
                        let nb = &ep.bufs[*needle].bytes;
                        let recipe = SubRecipe {
                            rev: true,
                            hay,
                            needle: *needle,
                            cfg: Some(FinderCfg { prefilter: true, ranker: Ranker::Default }),
                        };
                        Some(lib(|| r.rfind_iter(h)).map(|it| {
                            (
                                Box::new(RevIt { it, keep: Some(keep) }) as Box<dyn DynSub>,
                                Arc::new(model::rfind_all(hb, nb)),
                                recipe,
                            )
                        }))
                    }
                    _ => None,
                };
                match made {
                    None => Out::skip("finder_iter_new"),
                    Some(Ok((it, list, recipe))) => {
                        // `as_ref()` of an owned finder is a borrow, so the
                        // iterator itself is never owned at this point
                        self.put(
                            dst,
                            Obj::Sub {
                                it,
                                list,
                                idx: 0,
                                inert: None,
                                owned: false,
                                recipe,
                                calls: 0,
                                inert_log: Vec::new(),
                                witness: None,
                                witness_inert: None,
                            },
                        );
                        Out::new("finder_iter_new", Res::Unit)
                    }
                    Some(Err(m)) => Out::new("finder_iter_new", Res::Panic(m)).expect(VKind::SubIter, Res::Unit),
                }
            }
        }
    }

    /// An iterator equivalent to the recipe's, advanced by `calls` next()
    /// calls -- built without clone()/into_owned(), from the harness' own
    /// copy of the needle (the caller's buffer may be dead by now).
    fn make_witness(
        &mut self,
        recipe: &SubRecipe,
        calls: usize,
        inert_log: &[(usize, u32)],
    ) -> (Option<Box<dyn DynSub>>, Option<u32>) {
        match self.make_witness_inner(recipe, calls, inert_log) {
            Some((w, i)) => (Some(w), i),
            None => (None, None),
        }
    }

    fn make_witness_inner(
        &mut self,
        recipe: &SubRecipe,
        calls: usize,
        inert_log: &[(usize, u32)],
    ) -> Option<(Box<dyn DynSub>, Option<u32>)> {
        let h = arena_slice(recipe.hay);
        let nb: &'static [u8] = unsafe { &*(self.bytes(recipe.needle) as *const [u8]) };
        let mut it: Box<dyn DynSub> = match (&recipe.cfg, recipe.rev) {
            (None, false) => Box::new(FwdIt { it: lib(|| memmem::find_iter(h, nb)).ok()?, keep: None }),
            (None, true) => Box::new(RevIt { it: lib(|| memmem::rfind_iter(h, nb)).ok()?, keep: None }),
            (Some(cfg), false) => {
                let keep = Arc::new(build_fwd(cfg, nb, nb).ok()?);
                let r: &'static memmem::Finder<'static> = unsafe { &*Arc::as_ptr(&keep) };
                Box::new(FwdIt { it: lib(|| r.find_iter(h)).ok()?, keep: Some(keep) })
            }
            (Some(_), true) => {
                let keep = Arc::new(lib(|| memmem::FinderRev::new(nb)).ok()?);
                let r: &'static memmem::FinderRev<'static> = unsafe { &*Arc::as_ptr(&keep) };
                Box::new(RevIt { it: lib(|| r.rfind_iter(h)).ok()?, keep: Some(keep) })
            }
        };
        // replay the lineage's calls, with the forced give-up fault armed at
        // the same points, so that the witness carries the same prefilter state
        let mut w_inert: Option<u32> = None;
        for i in 0..calls {
            for &(at, k) in inert_log {
                if at == i {
                    w_inert = Some(k);
                }
            }
            with_ctx(|c| c.inert_countdown = w_inert);
            let r = it.next();
            w_inert = with_ctx(|c| c.inert_countdown.take()).flatten();
            r.ok()?;
        }
        for &(at, k) in inert_log {
            if at == calls {
                w_inert = Some(k);
            }
        }
        Some((it, w_inert))
    }

    fn op_packed(
        &mut self,
        be: Backend,
        pair: Option<(u8, u8)>,
        prefilter: bool,
        hay: BufId,
        needle: BufId,
        needle2: Option<BufId>,
    ) -> Out {
        let h = arena_slice(hay);
        let n = arena_slice(needle);
        let hb = self.bytes(hay);
        let nb = self.bytes(needle);
        if self.is_miri {
            if let Some(n2) = needle2 {
                // see DESIGN.md C05: `end.sub(needle.len())` with a search-time
                // needle longer than the haystack is out-of-bounds pointer
                // *arithmetic* (no read); kept out of the Miri workload
                if self.bytes(n2).len() > hb.len() {
                    return Out::skip("packed");
                }
            }
        }
        let n2 = needle2.map(arena_slice).unwrap_or(n);
        let mk_pair = || -> Option<m_all::packedpair::Pair> {
            match pair {
                None => m_all::packedpair::Pair::new(n),
                Some((a, b)) => m_all::packedpair::Pair::with_indices(n, a, b),
            }
        };
        // (result, min_haystack_len if the backend documents the panic)
        let ran: Option<(Result<Option<usize>, String>, Option<usize>)> = match be {
            Backend::All => {
                let p = match lib(mk_pair) {
                    Ok(Some(p)) => p,
                    Ok(None) => return Out::skip("packed"),
                    Err(m) => return Out::new("packed", Res::Panic(m)),
                };
                match match lib(|| m_all::packedpair::Finder::with_pair(n, p)) {
                    Ok(f) => f,
                    Err(m) => return Out::new("packed", Res::Panic(m)),
                } {
                    None => None,
                    Some(f) => Some((lib(|| f.find_prefilter(h)), None)),
                }
            }
            #[cfg(target_arch = "x86_64")]
            Backend::Sse2 => {
                let p = match lib(mk_pair) {
                    Ok(Some(p)) => p,
                    Ok(None) => return Out::skip("packed"),
                    Err(m) => return Out::new("packed", Res::Panic(m)),
                };
                match match lib(|| x86::sse2::packedpair::Finder::with_pair(n, p)) {
                    Ok(f) => f,
                    Err(m) => return Out::new("packed", Res::Panic(m)),
                } {
                    None => None,
                    Some(f) => {
                        let min = f.min_haystack_len();
                        Some((lib(|| if prefilter { f.find_prefilter(h) } else { f.find(h, n2) }), Some(min)))
                    }
                }
            }
            #[cfg(target_arch = "x86_64")]
            Backend::Avx2 => {
                let p = match lib(mk_pair) {
                    Ok(Some(p)) => p,
                    Ok(None) => return Out::skip("packed"),
                    Err(m) => return Out::new("packed", Res::Panic(m)),
                };
                match match lib(|| x86::avx2::packedpair::Finder::with_pair(n, p)) {
                    Ok(f) => f,
                    Err(m) => return Out::new("packed", Res::Panic(m)),
                } {
                    None => None,
                    Some(f) => {
                        let min = f.min_haystack_len();
                        Some((lib(|| if prefilter { f.find_prefilter(h) } else { f.find(h, n2) }), Some(min)))
                    }
                }
            }
            #[cfg(target_arch = "aarch64")]
            Backend::Neon => {
                let p = match lib(mk_pair) {
                    Ok(Some(p)) => p,
                    Ok(None) => return Out::skip("packed"),
                    Err(m) => return Out::new("packed", Res::Panic(m)),
                };
                match match lib(|| arm::neon::packedpair::Finder::with_pair(n, p)) {
                    Ok(f) => f,
                    Err(m) => return Out::new("packed", Res::Panic(m)),
                } {
                    None => None,
                    Some(f) => {
                        let min = f.min_haystack_len();
                        Some((lib(|| if prefilter { f.find_prefilter(h) } else { f.find(h, n2) }), Some(min)))
                    }
                }
            }
            #[allow(unreachable_patterns)]
            _ => None,
        };
        let (r, min) = match ran {
            None => return Out::skip("packed"),
            Some(x) => x,
        };
        let name = if prefilter { "packed_prefilter" } else { "packed_find" };
        let mut o = Out::new(name, res_of(r, Res::opt));
        if let Some(min) = min {
            if hb.len() < min {
                o.panic_ok = true;
                o.panic_required = true;
                if matches!(o.res, Res::Panic(_)) {
                    self.w.stats.lock().unwrap().lib_panics_documented += 1;
                }
                return o;
            }
        }
        if needle2.is_some() && !prefilter {
            // outside the documented contract ("the needle given should be
            // the same"): any answer, or a panic from an internal assertion
            o.panic_ok = true;
            if !matches!(o.res, Res::Panic(_)) {
                o.res = Res::Unspecified;
            }
            return o;
        }
        if prefilter || matches!(be, Backend::All) {
            // C11 (not claimed): candidate <= first occurrence; None only if absent
            let first = model::find(hb, nb);
            let ok = match (&o.res, first) {
                (Res::Some(c), Some(fst)) => (*c as usize) <= fst,
                (Res::None, Some(_)) => false,
                (Res::Panic(_), _) => false,
                _ => true,
            };
            if !ok {
                let e = Res::opt(first);
                return o.expect(VKind::Model, e);
            }
            // candidate positions are heuristic dependent: logged, not compared
            return o;
        }
        let e = Res::opt(model::find(hb, nb));
        o.expect(VKind::Model, e)
    }

    fn op_lockstep(
        &mut self,
        needle: BufId,
        cfgs: &[FinderCfg],
        hays: &[BufId],
        iter: bool,
        inert_at: &[Option<u32>],
    ) -> Out {
        let n = arena_slice(needle);
        let nb = self.bytes(needle);
        let mut finders = Vec::new();
        for cfg in cfgs {
            match build_fwd(cfg, n, nb) {
                Ok(f) => finders.push(f),
                Err(m) => return Out::new("lockstep", Res::Panic(m)).expect(VKind::Heuristic, Res::Unit),
            }
        }
        if finders.is_empty() {
            return Out::skip("lockstep");
        }
        let mut all: Vec<u64> = Vec::new();
        for &hay in hays {
            let h = arena_slice(hay);
            let hb = self.bytes(hay);
            if !iter {
                let mut first: Option<Res> = None;
                for (i, f) in finders.iter().enumerate() {
                    with_ctx(|c| c.inert_countdown = inert_at.get(i).copied().flatten());
                    let r = res_of(lib(|| f.find(h)), Res::opt);
                    with_ctx(|c| c.inert_countdown = None);
                    self.w.stats.lock().unwrap().inner_evals += 1;
                    match &first {
                        None => first = Some(r),
                        Some(f0) => {
                            if *f0 != r {
                                let f0 = f0.clone();
                                return Out::new("lockstep_find", r).expect(VKind::Heuristic, f0);
                            }
                        }
                    }
                }
                let f0 = first.unwrap();
                let m = Res::opt(model::find(hb, nb));
                if f0 != m {
                    return Out::new("lockstep_find", f0).expect(VKind::Model, m);
                }
                all.push(match f0 {
                    Res::Some(x) => x,
                    _ => u64::MAX,
                });
            } else {
                let mut its: Vec<_> = match catch_unwind(AssertUnwindSafe(|| {
                    finders.iter().map(|f| f.find_iter(h)).collect::<Vec<_>>()
                })) {
                    Ok(v) => v,
                    Err(e) => {
                        return Out::new("lockstep_iter", Res::Panic(panic_msg(e))).expect(VKind::Heuristic, Res::Unit)
                    }
                };
                let mut counts: Vec<Option<u32>> = (0..its.len()).map(|i| inert_at.get(i).copied().flatten()).collect();
                let cap = hb.len() + 3;
                let mut steps = 0;
                loop {
                    let mut first: Option<Res> = None;
                    for (i, it) in its.iter_mut().enumerate() {
                        with_ctx(|c| c.inert_countdown = counts[i]);
                        let r = res_of(lib(|| it.next()), Res::opt);
                        counts[i] = with_ctx(|c| c.inert_countdown.take()).flatten();
                        self.w.stats.lock().unwrap().inner_evals += 1;
                        match &first {
                            None => first = Some(r),
                            Some(f0) => {
                                if *f0 != r {
                                    let f0 = f0.clone();
                                    return Out::new("lockstep_iter", r).expect(VKind::Heuristic, f0);
                                }
                            }
                        }
                    }
                    match first.unwrap() {
                        Res::Some(x) => all.push(x),
                        Res::None => break,
                        other => return Out::new("lockstep_iter", other).expect(VKind::Heuristic, Res::None),
                    }
                    steps += 1;
                    if steps > cap {
                        return Out::new("lockstep_iter", Res::List(all))
                            .expect(VKind::Heuristic, Res::List(Vec::new()));
                    }
                }
                all.push(u64::MAX - 1);
            }
        }
        Out::new(if iter { "lockstep_iter" } else { "lockstep_find" }, Res::List(all))
    }

    fn op_cost(&mut self, f: CostFn, hay: BufId, needle: BufId, cfg: Option<&FinderCfg>) -> Out {
        let h = arena_slice(hay);
        let n = arena_slice(needle);
        let nbytes = self.bytes(needle);
        // building the finder is part of the measured work
        let build = |n: &'static [u8]| -> memmem::Finder<'static> {
            match cfg {
                None => memmem::Finder::new(n),
                Some(cfg) => {
                    let mut b = memmem::FinderBuilder::new();
                    b.prefilter(if cfg.prefilter { memmem::Prefilter::Auto } else { memmem::Prefilter::None });
                    match model::ranker_table(&cfg.ranker, nbytes) {
                        None => b.build_forward(n),
                        Some(t) => b.build_forward_with_ranker(TableRanker(t), n),
                    }
                }
            }
        };
        let t0 = ticks();
        let r: Result<(u64, u64), String> = match f {
            CostFn::BuildFind => lib(|| (1, build(n).find(h).map_or(u64::MAX, |x| x as u64))),
            CostFn::BuildRfind => lib(|| (1, memmem::FinderRev::new(n).rfind(h).map_or(u64::MAX, |x| x as u64))),
            CostFn::MemFind => lib(|| (1, memmem::find(h, n).map_or(u64::MAX, |x| x as u64))),
            CostFn::MemRfind => lib(|| (1, memmem::rfind(h, n).map_or(u64::MAX, |x| x as u64))),
            CostFn::FindIterAll => lib(|| {
                let cap = h.len() + 3;
                let mut c = 0u64;
                let mut last = u64::MAX;
                let finder = build(n);
                for x in finder.find_iter(h) {
                    c += 1;
                    last = x as u64;
                    if c as usize > cap {
                        break;
                    }
                }
                (c, last)
            }),
            CostFn::RfindIterAll => lib(|| {
                let cap = h.len() + 3;
                let mut c = 0u64;
                let mut last = u64::MAX;
                for x in memmem::rfind_iter(h, n) {
                    c += 1;
                    last = x as u64;
                    if c as usize > cap {
                        break;
                    }
                }
                (c, last)
            }),
        };
        let dt = ticks().wrapping_sub(t0);
        let size = (h.len() + n.len()) as u64;
        crate::COST.lock().unwrap().observe(f, h.len() as u64, n.len() as u64, dt);
        let bound = crate::cost_bound(size);
        let mut o = Out::new("cost", res_of(r, |(c, last)| Res::List(vec![c, last])));
        if dt > bound {
            self.w.violate(
                VKind::Deadline,
                format!(
                    "{:?}: {} ticks for haystack {} + needle {} bytes exceeds the bound {} (= {}*(n+m) + {})",
                    f,
                    dt,
                    h.len(),
                    n.len(),
                    bound,
                    crate::cost_k(),
                    crate::COST_C
                ),
            );
        }
        // sanity of the reported position(s): a reported match must be a match
        if let Res::List(v) = &o.res {
            let hb = self.bytes(hay);
            let nb = self.bytes(needle);
            let pos = *v.last().unwrap();
            if pos != u64::MAX && !(pos as usize + nb.len() <= hb.len() && &hb[pos as usize..pos as usize + nb.len()] == nb) {
                o.expect = Some(Res::Unit);
                o.kind = VKind::Model;
            }
        }
        o
    }
}

/// Runs one simulated caller thread to completion.
fn run_thread(w: &World, ep: &Episode, tid: usize, plumbing: &Plumbing, seen_new: u8) -> ThreadResult {
    let mut ctx = TaskCtx::new(tid, seen_new);
    let prev = world::set_ctx(&mut ctx as *mut TaskCtx);
    let mut th = Th { w, ep, tid, objs: Vec::new(), plumbing, is_miri: cfg!(miri) };
    let mut log = Vec::with_capacity(ep.threads[tid].len());
    for (i, op) in ep.threads[tid].iter().enumerate() {
        with_ctx(|c| {
            c.op_index = i;
            c.allocs = 0;
            c.ran = 0;
            c.inert_fired = false;
            c.lib_panicked = false;
        });
        crate::progress(tid, i);
        let armed_before = matches!(op, Op::ArmInert { .. });
        let t_op = if crate::timing() { Some(std::time::Instant::now()) } else { None };
        let out = th.run_op(op);
        if let Some(t) = t_op {
            eprintln!("  op {} {} {:.3}s", i, out.kind_name, t.elapsed().as_secs_f64());
        }
        if !armed_before {
            // a one-shot ArmInert only covers the very next operation
            with_ctx(|c| c.inert_countdown = None);
        }
        let allocs = with_ctx(|c| c.allocs).unwrap_or(0);
        let any_lib_panic = with_ctx(|c| c.lib_panicked).unwrap_or(false);
        let panicked = matches!(out.res, Res::Panic(_));
        {
            let mut st = w.stats.lock().unwrap();
            st.ops += 1;
            *st.ops_by_kind.entry(out.kind_name.to_string()).or_insert(0) += 1;
            if matches!(out.res, Res::Some(_))
                || matches!(&out.res, Res::Count(c) if *c > 0)
                || matches!(&out.res, Res::List(v) if v.last().map_or(false, |&x| x < u64::MAX - 1))
            {
                st.ops_with_match += 1;
            }
            if panicked && !out.panic_ok {
                st.lib_panics_other += 1;
            }
        }
        // --- invariants of every operation --------------------------------
        if let Res::Panic(m) = &out.res {
            if !out.panic_ok {
                w.violate(VKind::Panic, format!("{} panicked: {}", out.kind_name, m));
            }
        } else if out.panic_required {
            w.violate(
                VKind::Panic,
                format!("{}: haystack shorter than min_haystack_len but the documented panic did not happen", out.kind_name),
            );
        }
        if !panicked && !any_lib_panic && !out.allow_alloc && allocs > 0 {
            w.violate(VKind::Alloc, format!("{} made {} heap allocation request(s)", out.kind_name, allocs));
        }
        if let Some(e) = &out.expect {
            if *e != out.res && !(panicked && out.panic_ok) {
                if out.kind == VKind::Model {
                    w.stats.lock().unwrap().notes_model_mismatch += 1;
                }
                w.violate(out.kind, format!("{}: got {:?}, expected {:?}", out.kind_name, out.res, e));
            }
        }
        // operations that only exist in some build configurations (owning
        // conversions need `alloc`) are logged uniformly, so that result logs
        // stay comparable across configurations
        let logged = match op {
            Op::FinderOwn { .. } | Op::FIterOwn { .. } | Op::KillNeedle { .. } | Op::ShiftOr { .. } => Res::Unit,
            _ => out.res,
        };
        log.push(logged);
    }
    // drop this thread's objects before announcing completion
    th.objs.clear();
    for to in (tid + 1)..ep.threads.len() {
        let seen = with_ctx(|c| c.seen_new).unwrap_or(0);
        plumbing.chans[tid][to].with(|c| {
            c.sender_done = true;
            c.seen_new |= seen;
        });
    }
    world::set_ctx(prev);
    ThreadResult { log }
}

/// The body of one execution: warm-up on the main task, then the simulated
/// threads. Returns the per-thread result logs.
pub fn run_tasks(w: &'static World, ep: Arc<Episode>) -> Vec<Vec<Res>> {
    let nthreads = ep.threads.len();
    let mode = w.mode;
    let mut main_ctx = TaskCtx::new(100, 0);
    let prev = world::set_ctx(&mut main_ctx as *mut TaskCtx);
    // S2: process history
    let warm_mask: u8 = match w.env.dispatch {
        Dispatch::Fresh => 0,
        Dispatch::Warm => 0x7f,
        Dispatch::Partial(m) => m & 0x7f,
    };
    if warm_mask != 0 {
        let probe = [0u8; 3];
        let hay = [1u8, 2, 3];
        for slot in 0..7 {
            if warm_mask & (1 << slot) == 0 {
                continue;
            }
            let _ = lib(|| match slot {
                0 => mc::memchr(probe[0], &hay).is_some(),
                1 => mc::memrchr(probe[0], &hay).is_some(),
                2 => mc::memchr2(probe[0], probe[1], &hay).is_some(),
                3 => mc::memrchr2(probe[0], probe[1], &hay).is_some(),
                4 => mc::memchr3(probe[0], probe[1], probe[2], &hay).is_some(),
                5 => mc::memrchr3(probe[0], probe[1], probe[2], &hay).is_some(),
                _ => mc::memchr_iter(probe[0], &hay).count() > 0,
            });
        }
    }
    let inherited = with_ctx(|c| c.seen_new).unwrap_or(0);
    let plumbing = Arc::new(Plumbing {
        chans: (0..nthreads)
            .map(|_| {
                (0..nthreads)
                    .map(|_| Shared::new(mode, Chan { q: VecDeque::new(), sender_done: false, seen_new: 0 }))
                    .collect()
            })
            .collect(),
    });
    let results: Arc<std::sync::Mutex<Vec<Option<Vec<Res>>>>> =
        Arc::new(std::sync::Mutex::new((0..nthreads).map(|_| None).collect()));
    if nthreads == 1 || mode == RtMode::Inline {
        for tid in 0..nthreads {
            let r = run_thread(w, &ep, tid, &plumbing, inherited);
            results.lock().unwrap()[tid] = Some(r.log);
        }
    } else {
        let mut handles = Vec::new();
        for tid in 0..nthreads {
            let ep2 = ep.clone();
            let pl = plumbing.clone();
            let res = results.clone();
            handles.push(rt::spawn(mode, move || {
                let r = run_thread(w, &ep2, tid, &pl, inherited);
                res.lock().unwrap()[tid] = Some(r.log);
            }));
        }
        for h in handles {
            h.join();
        }
    }
    world::set_ctx(prev);
    let mut out = Vec::new();
    for r in results.lock().unwrap().iter_mut() {
        out.push(r.take().unwrap_or_default());
    }
    out
}
