//! Per-episode simulator state shared by all simulated threads, the run-time
//! choice source, the per-task context and the hook implementations that the
//! library calls back into.

use std::cell::Cell;
use std::sync::atomic::{AtomicPtr, AtomicU64, Ordering};
use std::sync::Mutex;

use crate::episode::*;
use crate::rng::{Fnv, Rng};

// ---------------------------------------------------------------------------
// hook ABI constants (mirrors src/verif.rs of the library; checked at startup
// by exec.rs against the real constants)

pub const SITE_BEFORE_LOAD: u32 = 0;
pub const SITE_BEFORE_STORE: u32 = 1;
pub const SITE_AFTER_STORE: u32 = 2;
pub const SITE_AFTER_LOAD: u32 = 3;
pub const SITE_TICK: u32 = 4;
pub const FEATURE_SSE2: u32 = 0;
pub const FEATURE_AVX2: u32 = 1;
pub const BACKEND_FALLBACK: usize = 0;
pub const BACKEND_SSE2: usize = 1;
pub const BACKEND_AVX2: usize = 2;
pub const EV_CHOSE: u32 = 0;
pub const EV_RAN: u32 = 1;
pub const EV_SEARCHER: u32 = 2;
pub const EV_PREFILTER: u32 = 3;
pub const EV_PROBE: u32 = 4;
pub const SK_SSE2: usize = 4;
pub const SK_AVX2: usize = 5;
pub const PK_SSE2: usize = 1;
pub const PK_AVX2: usize = 2;
pub const PROBE_COUNT: usize = 10;
pub const SLOTS: usize = 7;

pub const PROBE_NAMES: [&str; PROBE_COUNT] = [
    "prefilter_went_inert_naturally",
    "packedpair_find_overlap_tail",
    "twoway_fwd_small_period",
    "meta_rabinkarp_fallback",
    "prefilter_find_simple_short_haystack",
    "twoway_fwd_large_period",
    "twoway_rev_small_period",
    "twoway_rev_large_period",
    "prefilter_forced_inert",
    "packedpair_prefilter_overlap_tail",
];
pub const SEARCHER_NAMES: [&str; 8] =
    ["empty", "one_byte", "two_way", "two_way_with_prefilter", "sse2", "avx2", "neon", "simd128"];
pub const PREFILTER_NAMES: [&str; 5] = ["fallback", "sse2", "avx2", "neon", "simd128"];
pub const BACKEND_NAMES: [&str; 3] = ["fallback_swar", "sse2", "avx2"];

// ---------------------------------------------------------------------------
// choice source

/// Every decision taken while an episode runs goes through here and is
/// logged. In replay mode the log is the input.
pub struct Choices {
    rng: Rng,
    replay: Option<(Vec<u32>, usize)>,
    pub log: Vec<u32>,
    /// replay asked for a value the recorded log did not contain / that was
    /// out of range (only possible after the minimiser edited the episode)
    pub diverged: bool,
}

impl Choices {
    pub fn fresh(seed: u64) -> Choices {
        Choices { rng: Rng::new(seed), replay: None, log: Vec::new(), diverged: false }
    }
    pub fn replaying(list: Vec<u32>) -> Choices {
        Choices { rng: Rng::new(0), replay: Some((list, 0)), log: Vec::new(), diverged: false }
    }
    /// A value in `0..n`. `bias0` (num, den): probability of answering 0 when
    /// drawing fresh; 0 is always the "nothing unusual happens" answer.
    pub fn choose(&mut self, n: u32, bias0: Option<(u64, u64)>) -> u32 {
        debug_assert!(n >= 1);
        let v = match self.replay.as_mut() {
            Some((list, idx)) => {
                let v = if *idx < list.len() { list[*idx] } else { 0 };
                *idx += 1;
                if v >= n {
                    self.diverged = true;
                    v % n
                } else {
                    v
                }
            }
            None => {
                if n == 1 {
                    0
                } else {
                    match bias0 {
                        Some((num, den)) => {
                            if self.rng.chance(num, den) {
                                0
                            } else {
                                1 + self.rng.below(n as u64 - 1) as u32
                            }
                        }
                        None => self.rng.below(n as u64) as u32,
                    }
                }
            }
        };
        self.log.push(v);
        v
    }
    pub fn raw_u64(&mut self) -> u64 {
        self.rng.next_u64()
    }
}

// ---------------------------------------------------------------------------
// statistics gathered while running

#[derive(Default, Clone, Debug, serde::Serialize, serde::Deserialize)]
pub struct Stats {
    pub episodes: u64,
    pub ops: u64,
    pub ops_with_match: u64,
    /// comparisons made inside composite operations (lock-step finder
    /// calls, cross-backend calls)
    pub inner_evals: u64,
    pub sched_steps: u64,
    pub context_switches: u64,
    pub seam_events: u64,
    pub tick_preemptions: u64,
    pub ticks: u64,
    pub detect_runs: u64,
    pub stale_reads_injected: u64,
    pub stale_reads_eligible: u64,
    pub forced_inert: u64,
    pub needle_kills: u64,
    pub sends: u64,
    pub shares: u64,
    pub recvs: u64,
    pub alloc_positive_controls: u64,
    pub lib_panics_documented: u64,
    pub lib_panics_other: u64,
    pub episodes_by_cpu: [u64; 3],
    pub episodes_by_krate: [u64; 3],
    pub episodes_by_dispatch: [u64; 3],
    pub episodes_by_threads: [u64; 5],
    pub place_left: u64,
    pub place_right: u64,
    pub place_mid: u64,
    #[serde(default)]
    pub place_over: u64,
    pub ran_backend: [u64; 3],
    pub searcher_kind: [u64; 8],
    pub prefilter_kind: [u64; 5],
    pub probes: [u64; PROBE_COUNT],
    pub notes_model_mismatch: u64,
    pub replay_diverged: u64,
    pub ops_by_kind: std::collections::BTreeMap<String, u64>,
}

impl Stats {
    pub fn add(&mut self, o: &Stats) {
        macro_rules! acc { ($($f:ident),*) => { $( self.$f += o.$f; )* } }
        acc!(
            episodes, ops, ops_with_match, inner_evals, sched_steps, context_switches, seam_events, tick_preemptions, ticks,
            detect_runs, stale_reads_injected, stale_reads_eligible, forced_inert, needle_kills,
            sends, shares, recvs, alloc_positive_controls, lib_panics_documented,
            lib_panics_other, place_left, place_right, place_mid, place_over, notes_model_mismatch,
            replay_diverged
        );
        macro_rules! arr { ($($f:ident),*) => { $( for i in 0..self.$f.len() { self.$f[i] += o.$f[i]; } )* } }
        arr!(
            episodes_by_cpu, episodes_by_krate, episodes_by_dispatch, episodes_by_threads,
            ran_backend, searcher_kind, prefilter_kind, probes
        );
        for (k, v) in &o.ops_by_kind {
            *self.ops_by_kind.entry(k.clone()).or_insert(0) += v;
        }
    }
}

// ---------------------------------------------------------------------------
// the world

pub type SlotValueFn = fn(usize) -> Option<(*mut (), *mut ())>;

pub struct World {
    pub env: Env,
    pub host_avx2: bool,
    pub compile_avx2: bool,
    pub choices: Mutex<Choices>,
    pub stats: Mutex<Stats>,
    pub violations: Mutex<Vec<Violation>>,
    /// function pointers recorded by EV_CHOSE: [slot][backend]
    pub known: Mutex<[[usize; 3]; SLOTS]>,
    pub slot_value: SlotValueFn,
    /// seam-level trace hash: (task, site, slot, value class) sequence
    pub trace: Mutex<Fnv>,
    pub faults_fired: AtomicU64,
    pub mode: RtMode,
}

#[derive(Clone, Copy, Debug, PartialEq, Eq)]
pub enum RtMode {
    /// threads are shuttle tasks; the simulator's scheduler decides
    Shuttle,
    /// threads are OS threads (Miri: its seeded scheduler decides)
    Os,
    /// one thread after the other on the calling thread
    Inline,
}

static WORLD: AtomicPtr<World> = AtomicPtr::new(core::ptr::null_mut());

pub fn set_world(w: Option<&World>) {
    let p = match w {
        None => core::ptr::null_mut(),
        Some(w) => w as *const World as *mut World,
    };
    WORLD.store(p, Ordering::SeqCst);
}

#[inline]
pub fn world() -> Option<&'static World> {
    let p = WORLD.load(Ordering::Relaxed);
    if p.is_null() {
        None
    } else {
        Some(unsafe { &*p })
    }
}

impl World {
    pub fn violate(&self, kind: VKind, what: String) {
        let (thread, op) = with_ctx(|c| (c.tid, c.op_index)).unwrap_or((usize::MAX, 0));
        self.violations.lock().unwrap().push(Violation { kind, thread, op, what });
    }

    pub fn avx2_hidden(&self) -> bool {
        // a binary compiled with +avx2 cannot run on a CPU without it: in that
        // build flavour the simulated CPU is always the host
        !self.compile_avx2 && !matches!(self.env.cpu, Cpu::Host)
    }
    pub fn sse2_hidden(&self) -> bool {
        !self.compile_avx2 && matches!(self.env.cpu, Cpu::NoSimd)
    }

    /// Which ifunc backend the dispatcher must pick in this episode.
    pub fn expected_backend(&self) -> usize {
        if self.sse2_hidden() {
            return BACKEND_FALLBACK;
        }
        let avx2_detectable =
            self.compile_avx2 || (matches!(self.env.krate, Krate::Std) && self.host_avx2);
        if avx2_detectable && !self.avx2_hidden() {
            BACKEND_AVX2
        } else {
            BACKEND_SSE2
        }
    }

    fn backend_allowed(&self, backend: usize) -> bool {
        match backend {
            BACKEND_AVX2 => !self.avx2_hidden() && !self.sse2_hidden(),
            BACKEND_SSE2 => !self.sse2_hidden(),
            _ => true,
        }
    }

    /// dispatch-slot invariant: each registered slot holds its detector or
    /// the routine the simulated CPU selects, never anything else
    fn check_slots(&self) {
        if cfg!(miri) {
            // Miri deliberately gives the same function different addresses
            // at different casts, so pointer identity says nothing there;
            // the backend-entered events (EV_RAN) carry the invariant instead
            return;
        }
        let known = *self.known.lock().unwrap();
        let exp = self.expected_backend();
        for slot in 0..SLOTS {
            if let Some((cur, initial)) = (self.slot_value)(slot) {
                if cur == initial {
                    continue;
                }
                let cur = cur as usize;
                if cur != 0 && known[slot][exp] == cur {
                    continue;
                }
                let which = if cur == 0 { None } else { (0..3).find(|&b| known[slot][b] == cur) };
                self.violate(
                    VKind::Schedule,
                    format!(
                        "dispatch slot {} holds {} but the simulated CPU selects {}",
                        slot,
                        match which {
                            Some(b) => BACKEND_NAMES[b].to_string(),
                            None if cur == 0 => "a null pointer".to_string(),
                            None => format!("an unknown pointer {:#x}", cur),
                        },
                        BACKEND_NAMES[exp]
                    ),
                );
            }
        }
    }
}

// ---------------------------------------------------------------------------
// per-task context

pub struct TaskCtx {
    pub tid: usize,
    pub op_index: usize,
    /// bit i: this task is known (by coherence / happens-before) to have
    /// observed the post-detection value of dispatch slot i
    pub seen_new: u8,
    /// allocation requests attributed to the current library call
    pub allocs: u64,
    pub alloc_mark: u64,
    /// Some(k): force the prefilter to give up at the k-th effectiveness
    /// check from now
    pub inert_countdown: Option<u32>,
    pub inert_fired: bool,
    /// backends entered during the current op (bit per backend)
    pub ran: u8,
    pub in_lib: bool,
    /// ticks until this task is next preempted inside a search loop
    pub tick_countdown: u32,
    /// some library call of the current operation panicked (the panic
    /// machinery allocates: the allocation oracle does not apply then)
    pub lib_panicked: bool,
}

impl TaskCtx {
    pub fn new(tid: usize, seen_new: u8) -> TaskCtx {
        TaskCtx {
            tid,
            op_index: 0,
            seen_new,
            allocs: 0,
            alloc_mark: 0,
            inert_countdown: None,
            inert_fired: false,
            ran: 0,
            in_lib: false,
            tick_countdown: 0,
            lib_panicked: false,
        }
    }
}

thread_local! {
    static CUR: Cell<*mut TaskCtx> = const { Cell::new(core::ptr::null_mut()) };
}

pub fn set_ctx(c: *mut TaskCtx) -> *mut TaskCtx {
    CUR.with(|cur| cur.replace(c))
}

pub fn cur_ctx() -> *mut TaskCtx {
    CUR.with(|cur| cur.get())
}

#[inline]
pub fn with_ctx<R>(f: impl FnOnce(&mut TaskCtx) -> R) -> Option<R> {
    let p = cur_ctx();
    if p.is_null() {
        None
    } else {
        Some(f(unsafe { &mut *p }))
    }
}

/// Runs `f` (which may switch to other simulated tasks) and afterwards makes
/// this task current again, with its allocator window suspended meanwhile.
pub fn suspended<R>(f: impl FnOnce() -> R) -> R {
    let me = cur_ctx();
    let was_armed = crate::alloc::set_armed(false);
    if !me.is_null() && was_armed {
        let c = unsafe { &mut *me };
        c.allocs += crate::alloc::peek() - c.alloc_mark;
    }
    let r = f();
    set_ctx(me);
    if !me.is_null() && was_armed {
        let c = unsafe { &mut *me };
        c.alloc_mark = crate::alloc::peek();
    }
    crate::alloc::set_armed(was_armed);
    r
}

// ---------------------------------------------------------------------------
// the hook implementations

pub fn hook_seam(site: u32, slot: usize) {
    // hook code is harness code: never inside the allocator window
    suspended(|| hook_seam_inner(site, slot))
}

fn hook_seam_inner(site: u32, slot: usize) {
    let w = match world() {
        Some(w) => w,
        None => return,
    };
    if site == SITE_TICK {
        // preemption inside a search loop, on average every `tick_preempt` ticks
        if w.mode != RtMode::Shuttle || w.env.tick_preempt == 0 {
            return;
        }
        let due = with_ctx(|c| {
            if c.tick_countdown > 0 {
                c.tick_countdown -= 1;
                false
            } else {
                true
            }
        })
        .unwrap_or(false);
        if !due {
            return;
        }
        let mean = w.env.tick_preempt as u32;
        let next = w.choices.lock().unwrap().choose(2 * mean + 1, None);
        with_ctx(|c| c.tick_countdown = next);
        {
            let tid = with_ctx(|c| c.tid).unwrap_or(99);
            let mut t = w.trace.lock().unwrap();
            t.u8(tid as u8);
            t.u8(site as u8);
        }
        w.stats.lock().unwrap().tick_preemptions += 1;
        let me = cur_ctx();
        crate::rt::yield_now();
        set_ctx(me);
        return;
    }
    let tid = with_ctx(|c| c.tid).unwrap_or(99);
    // trace: (task, site, slot, value class)
    {
        let class = match (w.slot_value)(slot) {
            None => 2u8,
            Some((cur, init)) => (cur != init) as u8,
        };
        let mut t = w.trace.lock().unwrap();
        t.u8(tid as u8);
        t.u8(site as u8);
        t.u8(slot as u8);
        t.u8(class);
    }
    w.check_slots();
    if site == SITE_AFTER_STORE {
        with_ctx(|c| c.seen_new |= 1 << slot);
    }
    if site == SITE_BEFORE_STORE {
        w.stats.lock().unwrap().detect_runs += 1;
    }
    w.stats.lock().unwrap().seam_events += 1;
    match w.mode {
        RtMode::Shuttle => {
            let me = cur_ctx();
            crate::rt::yield_now();
            set_ctx(me);
        }
        RtMode::Os => std::thread::yield_now(),
        RtMode::Inline => {}
    }
}

/// The CPU-feature query inside `is_available()` is a seam as well: it is
/// where a first call spends its time (CPUID, std's feature cache), so the OS
/// may well preempt there -- in the middle of `detect`, before it has decided,
/// and in the middle of a finder's construction.
pub const SITE_CPU: u32 = 5;

pub fn hook_cpu_hidden(feature: u32) -> bool {
    let w = match world() {
        None => return false,
        Some(w) => w,
    };
    let hidden = match feature {
        FEATURE_AVX2 => w.avx2_hidden() || w.sse2_hidden(),
        FEATURE_SSE2 => w.sse2_hidden(),
        _ => false,
    };
    if w.mode != RtMode::Inline {
        suspended(|| {
            let tid = with_ctx(|c| c.tid).unwrap_or(99);
            {
                let mut t = w.trace.lock().unwrap();
                t.u8(tid as u8);
                t.u8(SITE_CPU as u8);
                t.u8(feature as u8);
            }
            w.stats.lock().unwrap().seam_events += 1;
            match w.mode {
                RtMode::Shuttle => {
                    let me = cur_ctx();
                    crate::rt::yield_now();
                    set_ctx(me);
                }
                RtMode::Os => std::thread::yield_now(),
                RtMode::Inline => {}
            }
        });
    }
    hidden
}

pub fn hook_stale(slot: usize, loaded: *mut (), initial: *mut ()) -> *mut () {
    suspended(|| hook_stale_inner(slot, loaded, initial))
}

fn hook_stale_inner(slot: usize, loaded: *mut (), initial: *mut ()) -> *mut () {
    let w = match world() {
        Some(w) => w,
        None => return loaded,
    };
    if loaded == initial {
        return loaded;
    }
    let bit = 1u8 << slot;
    let eligible = with_ctx(|c| c.seen_new & bit == 0).unwrap_or(false);
    if eligible && w.env.stale_pct > 0 {
        w.stats.lock().unwrap().stale_reads_eligible += 1;
        let pct = w.env.stale_pct as u64;
        let v = w.choices.lock().unwrap().choose(2, Some((100 - pct.min(100), 100)));
        if v == 1 {
            w.stats.lock().unwrap().stale_reads_injected += 1;
            w.faults_fired.fetch_add(1, Ordering::Relaxed);
            return initial;
        }
    }
    // this task has now observed the new value: coherence forbids it from
    // ever reading the old one again
    with_ctx(|c| c.seen_new |= bit);
    loaded
}

pub fn hook_event(kind: u32, a: usize, b: usize) {
    suspended(|| hook_event_inner(kind, a, b))
}

fn hook_event_inner(kind: u32, a: usize, b: usize) {
    let w = match world() {
        Some(w) => w,
        None => return,
    };
    match kind {
        EV_CHOSE => {
            let slot = a / 4;
            let backend = a % 4;
            if slot < SLOTS && backend < 3 {
                w.known.lock().unwrap()[slot][backend] = b;
                if backend != w.expected_backend() {
                    w.violate(
                        VKind::Config,
                        format!(
                            "dispatcher chose {} for slot {} but the simulated CPU ({:?}, {:?}) selects {}",
                            BACKEND_NAMES[backend],
                            slot,
                            w.env.cpu,
                            w.env.krate,
                            BACKEND_NAMES[w.expected_backend()]
                        ),
                    );
                }
            }
        }
        EV_RAN => {
            if b < 3 {
                w.stats.lock().unwrap().ran_backend[b] += 1;
                with_ctx(|c| c.ran |= 1 << b);
                if !w.backend_allowed(b) {
                    let k = if w.env.sched == Sched::Sequential { VKind::Config } else { VKind::Schedule };
                    w.violate(
                        k,
                        format!(
                            "{} routine entered for slot {} although the simulated CPU ({:?}) lacks it",
                            BACKEND_NAMES[b], a, w.env.cpu
                        ),
                    );
                }
            }
        }
        EV_SEARCHER => {
            if a < 8 {
                w.stats.lock().unwrap().searcher_kind[a] += 1;
                let bad = (a == SK_AVX2 && !w.backend_allowed(BACKEND_AVX2))
                    || (a == SK_SSE2 && !w.backend_allowed(BACKEND_SSE2));
                if bad {
                    w.violate(
                        VKind::Config,
                        format!(
                            "{} substring searcher entered although the simulated CPU ({:?}) lacks it",
                            SEARCHER_NAMES[a], w.env.cpu
                        ),
                    );
                }
            }
        }
        EV_PREFILTER => {
            if a < 5 {
                w.stats.lock().unwrap().prefilter_kind[a] += 1;
                let bad = (a == PK_AVX2 && !w.backend_allowed(BACKEND_AVX2))
                    || (a == PK_SSE2 && !w.backend_allowed(BACKEND_SSE2));
                if bad {
                    w.violate(
                        VKind::Config,
                        format!(
                            "{} prefilter entered although the simulated CPU ({:?}) lacks it",
                            PREFILTER_NAMES[a], w.env.cpu
                        ),
                    );
                }
            }
        }
        EV_PROBE => {
            if a < PROBE_COUNT {
                w.stats.lock().unwrap().probes[a] += 1;
            }
        }
        _ => {}
    }
}

pub fn hook_buggify(kind: u32) -> bool {
    suspended(|| hook_buggify_inner(kind))
}

fn hook_buggify_inner(_kind: u32) -> bool {
    let w = match world() {
        Some(w) => w,
        None => return false,
    };
    let fire = with_ctx(|c| match c.inert_countdown {
        None => false,
        Some(0) => {
            c.inert_countdown = None;
            c.inert_fired = true;
            true
        }
        Some(k) => {
            c.inert_countdown = Some(k - 1);
            false
        }
    })
    .unwrap_or(false);
    if fire {
        w.stats.lock().unwrap().forced_inert += 1;
        w.faults_fired.fetch_add(1, Ordering::Relaxed);
    }
    fire
}
