//! memsim: deterministic simulation with fault injection for the memchr crate.
//!
//! Sub-commands (used by /verif/check):
//!   run       run a range of episode families of one profile
//!   replay    execute one replay file
//!   minimise  shrink a failing replay file
//!   gen       print the family a seed/index generates
//!   info      what this build can do

mod alloc;
mod arena;
mod episode;
mod gen;
mod inputs;
mod minimise;
mod model;
mod rng;
mod rt;
mod sched;
mod world;

use std::sync::atomic::{AtomicI32, AtomicU64, AtomicUsize, Ordering};
use std::sync::{Arc, LazyLock, Mutex, RwLock};

use episode::*;
use world::{Choices, RtMode, Stats, World};

#[global_allocator]
static GLOBAL: alloc::Counting = alloc::Counting;

pub static ARENA: LazyLock<RwLock<arena::Arena>> = LazyLock::new(|| RwLock::new(arena::Arena::new()));

// ---------------------------------------------------------------------------
// C13: the deadline on the step clock.  ticks <= COST_K * (n + m) + COST_C
// Derivation in DESIGN.md section C13.
//
// K is four times the largest cost per byte the unchanged code reaches on the
// adversarial families (10.1 with SSE2/AVX2; 49 without SIMD, where each call
// of the portable prefilter may walk over up to 254 occurrences of the rare
// byte before it can report a candidate, see inputs.rs "portable prefilter
// worst case"), so that a change of the constant factor alone is not reported.
pub const COST_K: u64 = 40;
pub const COST_K_NOSIMD: u64 = 200;
pub const COST_C: u64 = 20_000;

pub fn cost_k() -> u64 {
    match world::world() {
        Some(w) if matches!(w.env.cpu, Cpu::NoSimd) => COST_K_NOSIMD,
        _ => COST_K,
    }
}

pub fn cost_bound(size: u64) -> u64 {
    cost_k() * size + COST_C
}

#[derive(Default, Clone, Debug, serde::Serialize, serde::Deserialize)]
pub struct CostStats {
    pub samples: u64,
    /// max over samples of ticks / (n + m + 1), in 1/1000
    pub max_ratio_milli: u64,
    pub max_ratio_case: String,
    /// max of ticks - COST_K*(n+m) (how much of the constant was used)
    pub max_excess: i64,
    pub max_n: u64,
    pub max_m: u64,
    pub total_ticks: u64,
    /// max ratio (1/1000 ticks per byte) per simulated CPU [host, no-avx2, no-simd]
    #[serde(default)]
    pub max_ratio_milli_by_cpu: [u64; 3],
}

impl CostStats {
    pub fn observe(&mut self, f: CostFn, n: u64, m: u64, dt: u64) {
        self.samples += 1;
        self.total_ticks += dt;
        let r = dt * 1000 / (n + m + 1);
        if r > 11000 && n + m >= 4096 && std::env::var_os("MEMSIM_COSTDBG").is_some() {
            eprintln!("COSTDBG family={} {:?} n={} m={} ticks={}", PROG_FAMILY.load(Ordering::Relaxed), f, n, m, dt);
        }
        // the ratio is only meaningful once the constant term is negligible
        if n + m >= 4096 {
            if let Some(w) = world::world() {
                let c = w.env.cpu as usize;
                if r > self.max_ratio_milli_by_cpu[c] {
                    self.max_ratio_milli_by_cpu[c] = r;
                }
            }
        }
        if n + m >= 4096 && r > self.max_ratio_milli {
            self.max_ratio_milli = r;
            self.max_ratio_case = format!("{:?} n={} m={} ticks={}", f, n, m, dt);
        }
        let ex = dt as i64 - (cost_k() * (n + m)) as i64;
        if self.samples == 1 || ex > self.max_excess {
            self.max_excess = ex;
        }
        self.max_n = self.max_n.max(n);
        self.max_m = self.max_m.max(m);
    }
    pub fn add(&mut self, o: &CostStats) {
        if o.samples == 0 {
            return;
        }

        if self.samples == 0 || o.max_excess > self.max_excess {
            self.max_excess = o.max_excess;
        }
        self.samples += o.samples;
        self.total_ticks += o.total_ticks;
        if o.max_ratio_milli > self.max_ratio_milli {
            self.max_ratio_milli = o.max_ratio_milli;
            self.max_ratio_case = o.max_ratio_case.clone();
        }
        self.max_n = self.max_n.max(o.max_n);
        self.max_m = self.max_m.max(o.max_m);
        for i in 0..3 {
            self.max_ratio_milli_by_cpu[i] = self.max_ratio_milli_by_cpu[i].max(o.max_ratio_milli_by_cpu[i]);
        }
    }
}

pub static COST: LazyLock<Mutex<CostStats>> = LazyLock::new(|| Mutex::new(CostStats::default()));

// ---------------------------------------------------------------------------
// progress words for the trap handler / hang attribution

static PROG_FAMILY: AtomicU64 = AtomicU64::new(0);
static PROG_VARIANT: AtomicUsize = AtomicUsize::new(0);
static PROG_TID: AtomicUsize = AtomicUsize::new(0);
static PROG_OP: AtomicUsize = AtomicUsize::new(0);
static TRAP_FD: AtomicI32 = AtomicI32::new(-1);
static PROGRESS_FD: AtomicI32 = AtomicI32::new(-1);

pub fn timing() -> bool {
    static T: LazyLock<bool> = LazyLock::new(|| std::env::var_os("MEMSIM_TIMING").map_or(false, |v| v == "2"));
    *T
}

pub fn progress(tid: usize, op: usize) {
    PROG_TID.store(tid, Ordering::Relaxed);
    PROG_OP.store(op, Ordering::Relaxed);
}

#[cfg(not(miri))]
mod trap {
    use super::*;

    unsafe fn put(fd: i32, s: &[u8]) {
        let _ = libc::write(fd, s.as_ptr() as *const libc::c_void, s.len());
    }

    fn fmt_u64(mut v: u64, buf: &mut [u8; 24]) -> &[u8] {
        let mut i = buf.len();
        if v == 0 {
            i -= 1;
            buf[i] = b'0';
        }
        while v > 0 {
            i -= 1;
            buf[i] = b'0' + (v % 10) as u8;
            v /= 10;
        }
        &buf[i..]
    }

    extern "C" fn on_fault(sig: i32, info: *mut libc::siginfo_t, _ctx: *mut libc::c_void) {
        // async-signal-safe only: write(2) and _exit(2)
        unsafe {
            let addr = if info.is_null() { 0 } else { (*info).si_addr() as usize as u64 };
            let guard = match ARENA.try_read() {
                Ok(a) => a.is_guard_fault(addr as usize) as u64,
                Err(_) => 2,
            };
            for fd in [2, TRAP_FD.load(Ordering::Relaxed)] {
                if fd < 0 {
                    continue;
                }
                let mut b = [0u8; 24];
                put(fd, b"TRAP signal=");
                put(fd, fmt_u64(sig as u64, &mut b));
                put(fd, b" family=");
                put(fd, fmt_u64(PROG_FAMILY.load(Ordering::Relaxed), &mut b));
                put(fd, b" variant=");
                put(fd, fmt_u64(PROG_VARIANT.load(Ordering::Relaxed) as u64, &mut b));
                put(fd, b" thread=");
                put(fd, fmt_u64(PROG_TID.load(Ordering::Relaxed) as u64, &mut b));
                put(fd, b" op=");
                put(fd, fmt_u64(PROG_OP.load(Ordering::Relaxed) as u64, &mut b));
                put(fd, b" addr=");
                put(fd, fmt_u64(addr, &mut b));
                put(fd, b" in_guard=");
                put(fd, fmt_u64(guard, &mut b));
                put(fd, b" choices=");
                if let Some(w) = world::world() {
                    if let Ok(ch) = w.choices.try_lock() {
                        for (i, v) in ch.log.iter().enumerate() {
                            if i > 0 {
                                put(fd, b",");
                            }
                            put(fd, fmt_u64(*v as u64, &mut b));
                        }
                    }
                }
                put(fd, b"\n");
            }
            libc::_exit(77);
        }
    }

    pub fn install() {
        unsafe {
            // alternate stack: the fault may happen on a coroutine stack
            let size = 1 << 16;
            let stack = libc::mmap(
                core::ptr::null_mut(),
                size,
                libc::PROT_READ | libc::PROT_WRITE,
                libc::MAP_PRIVATE | libc::MAP_ANONYMOUS,
                -1,
                0,
            );
            assert!(stack != libc::MAP_FAILED);
            let ss = libc::stack_t { ss_sp: stack, ss_flags: 0, ss_size: size };
            libc::sigaltstack(&ss, core::ptr::null_mut());
            let mut sa: libc::sigaction = core::mem::zeroed();
            sa.sa_sigaction = on_fault as *const () as usize;
            sa.sa_flags = libc::SA_SIGINFO | libc::SA_ONSTACK;
            libc::sigemptyset(&mut sa.sa_mask);
            for sig in [libc::SIGSEGV, libc::SIGBUS, libc::SIGILL, libc::SIGFPE, libc::SIGABRT] {
                libc::sigaction(sig, &sa, core::ptr::null_mut());
            }
        }
    }
}

#[cfg(miri)]
mod trap {
    pub fn install() {}
}

// ---------------------------------------------------------------------------
// the three compiled copies of the library

macro_rules! copy_of_library {
    ($modname:ident, $krate:ident, $variant:expr, $has_alloc:expr, $($if_alloc_body:tt)*) => {
        pub mod $modname {
            #[allow(unused_imports)]
            use $krate as mc;
            #[allow(dead_code)]
            pub const KRATE: crate::episode::Krate = $variant;
            #[allow(dead_code)]
            pub const HAS_ALLOC: bool = $has_alloc;
            $($if_alloc_body)*
            include!("exec_body.rs");
        }
    };
}

copy_of_library!(exec_std, memchr_std, crate::episode::Krate::Std, true,
    macro_rules! if_alloc { ($($t:tt)*) => { $($t)* } });
copy_of_library!(exec_alloc, memchr_alloc, crate::episode::Krate::Alloc, true,
    macro_rules! if_alloc { ($($t:tt)*) => { $($t)* } });
copy_of_library!(exec_core, memchr_core, crate::episode::Krate::Core, false,
    macro_rules! if_alloc { ($($t:tt)*) => {} });

fn set_tick_seams_for(k: Option<Krate>) {
    exec_std::set_tick_seams(k == Some(Krate::Std));
    exec_alloc::set_tick_seams(k == Some(Krate::Alloc));
    exec_core::set_tick_seams(k == Some(Krate::Core));
}

fn install_hooks_for(k: Krate) {
    exec_std::install_hooks(k == Krate::Std);
    exec_alloc::install_hooks(k == Krate::Alloc);
    exec_core::install_hooks(k == Krate::Core);
}

fn slot_value_fn(k: Krate) -> world::SlotValueFn {
    match k {
        Krate::Std => exec_std::slot_value,
        Krate::Alloc => exec_alloc::slot_value,
        Krate::Core => exec_core::slot_value,
    }
}

fn host_avx2() -> bool {
    #[cfg(target_arch = "x86_64")]
    {
        std::is_x86_feature_detected!("avx2")
    }
    #[cfg(not(target_arch = "x86_64"))]
    {
        false
    }
}

static COST_MAX_LOG2: AtomicUsize = AtomicUsize::new(16);
static LONG_HISTORY_LOG2: AtomicUsize = AtomicUsize::new(0);
/// `--no-huge`: the multi-GiB episode of a run is generated as an ordinary one
static NO_HUGE: std::sync::atomic::AtomicBool = std::sync::atomic::AtomicBool::new(false);
/// `--also-model`: disagreement of a one-shot result with the naive model
/// counts as a violation of the running profile too (used by the driver's
/// isolation oracle for C15: a call must return what it returns in isolation)
static ALSO_MODEL: std::sync::atomic::AtomicBool = std::sync::atomic::AtomicBool::new(false);

pub fn owns(profile: gen::Profile, k: VKind) -> bool {
    profile.owns(k) || (k == VKind::Model && ALSO_MODEL.load(Ordering::Relaxed))
}
static PORTABLE: std::sync::atomic::AtomicBool = std::sync::atomic::AtomicBool::new(false);

pub fn target() -> gen::Target {
    let miri = cfg!(miri);
    if PORTABLE.load(Ordering::Relaxed) {
        // the same episodes on every target and build flavour (C09 across
        // processes): nothing target specific may influence generation
        return gen::Target {
            x86_64: false,
            aarch64: false,
            miri: false,
            scale_small: true,
            cost_max_log2: 10,
            long_history_log2: 0,
            huge: false,
        };
    }
    gen::Target {
        x86_64: cfg!(target_arch = "x86_64"),
        aarch64: cfg!(target_arch = "aarch64"),
        miri,
        scale_small: miri,
        cost_max_log2: if miri { 11 } else { COST_MAX_LOG2.load(Ordering::Relaxed) as u32 },
        long_history_log2: if miri { 0 } else { LONG_HISTORY_LOG2.load(Ordering::Relaxed) as u32 },
        huge: !miri && !NO_HUGE.load(Ordering::Relaxed),
    }
}

// ---------------------------------------------------------------------------
// executing one episode under one environment

#[derive(Clone, Debug, serde::Serialize, serde::Deserialize)]
pub struct Outcome {
    pub logs: Vec<Vec<Res>>,
    pub log_hash: u64,
    pub violations: Vec<Violation>,
    pub choices: Vec<u32>,
    pub trace_hash: u64,
    pub faults_fired: u64,
    pub diverged: bool,
    pub had_match: bool,
}

fn hash_logs(logs: &[Vec<Res>]) -> u64 {
    let mut h = rng::Fnv::new();
    for (t, l) in logs.iter().enumerate() {
        h.u64(t as u64);
        h.u64(l.len() as u64);
        for r in l {
            r.hash_into(&mut h);
        }
    }
    h.finish()
}

pub fn execute(
    ep: &Arc<Episode>,
    env: &Env,
    replay_choices: Option<Vec<u32>>,
    stats: &mut Stats,
    force_mode: Option<RtMode>,
) -> Outcome {
    let nthreads = ep.threads.len();
    let mode = match force_mode {
        Some(m) => m,
        None => {
            if cfg!(miri) || !cfg!(feature = "shuttle") {
                if nthreads > 1 && env.sched != Sched::Sequential {
                    RtMode::Os
                } else {
                    RtMode::Inline
                }
            } else if nthreads > 1 && env.sched != Sched::Sequential {
                RtMode::Shuttle
            } else {
                RtMode::Inline
            }
        }
    };
    let replaying = replay_choices.is_some();
    let choices = match replay_choices {
        Some(c) => Choices::replaying(c),
        None => Choices::fresh(ep.rt_seed ^ 0x5bd1_e995),
    };
    let w_raw: *mut World = Box::into_raw(Box::new(World {
        env: env.clone(),
        host_avx2: host_avx2(),
        compile_avx2: cfg!(target_feature = "avx2"),
        choices: Mutex::new(choices),
        stats: Mutex::new(Stats::default()),
        violations: Mutex::new(Vec::new()),
        known: Mutex::new([[0; 3]; world::SLOTS]),
        slot_value: slot_value_fn(env.krate),
        trace: Mutex::new(rng::Fnv::new()),
        faults_fired: AtomicU64::new(0),
        mode,
    }));
    // SAFETY: freed below, after hooks are uninstalled and all tasks joined
    let w: &'static World = unsafe { &*w_raw };
    ARENA.write().unwrap().load(&ep.bufs, env.poison);
    // fresh process: every dispatch slot back to its detector
    exec_std::reset_slots();
    exec_alloc::reset_slots();
    exec_core::reset_slots();
    world::set_world(Some(w));
    let ticks0 = match env.krate {
        Krate::Std => exec_std::ticks(),
        Krate::Alloc => exec_alloc::ticks(),
        Krate::Core => exec_core::ticks(),
    };
    install_hooks_for(env.krate);
    set_tick_seams_for(if env.tick_preempt > 0 && mode == RtMode::Shuttle { Some(env.krate) } else { None });

    let logs: Vec<Vec<Res>> = match mode {
        #[cfg(feature = "shuttle")]
        RtMode::Shuttle => {
            let out: Arc<Mutex<Option<Vec<Vec<Res>>>>> = Arc::new(Mutex::new(None));
            let out2 = out.clone();
            let ep2 = ep.clone();
            let krate = env.krate;
            let mut cfg = shuttle::Config::new();
            cfg.stack_size = 1 << 18;
            cfg.max_steps = shuttle::MaxSteps::None;
            cfg.failure_persistence = shuttle::FailurePersistence::None;
            cfg.silence_warnings = true;
            let sched = sched::OnceSched::new(env.sched, replaying);
            let runner = shuttle::Runner::new(sched, cfg);
            runner.run(move || {
                let logs = match krate {
                    Krate::Std => exec_std::run_tasks(w, ep2.clone()),
                    Krate::Alloc => exec_alloc::run_tasks(w, ep2.clone()),
                    Krate::Core => exec_core::run_tasks(w, ep2.clone()),
                };
                *out2.lock().unwrap() = Some(logs);
            });
            let r = out.lock().unwrap().take().expect("execution produced no logs");
            r
        }
        _ => match env.krate {
            Krate::Std => exec_std::run_tasks(w, ep.clone()),
            Krate::Alloc => exec_alloc::run_tasks(w, ep.clone()),
            Krate::Core => exec_core::run_tasks(w, ep.clone()),
        },
    };

    install_hooks_for_none();
    set_tick_seams_for(None);
    world::set_world(None);
    // SAFETY: nothing refers to the world any more (hooks uninstalled, all
    // tasks joined)
    let w: Box<World> = unsafe { Box::from_raw(w_raw) };
    let mut st = w.stats.into_inner().unwrap();
    st.episodes = 1;
    st.ticks = match env.krate {
        Krate::Std => exec_std::ticks(),
        Krate::Alloc => exec_alloc::ticks(),
        Krate::Core => exec_core::ticks(),
    }
    .wrapping_sub(ticks0);
    st.episodes_by_cpu[env.cpu as usize] += 1;
    st.episodes_by_krate[env.krate as usize] += 1;
    st.episodes_by_dispatch[match env.dispatch {
        Dispatch::Fresh => 0,
        Dispatch::Warm => 1,
        Dispatch::Partial(_) => 2,
    }] += 1;
    st.episodes_by_threads[nthreads.min(4)] += 1;
    for b in &ep.bufs {
        match b.place {
            Place::Left => st.place_left += 1,
            Place::Right => st.place_right += 1,
            Place::Mid(_) => st.place_mid += 1,
            Place::Over(_) => st.place_over += 1,
        }
    }
    let ch = w.choices.into_inner().unwrap();
    if ch.diverged {
        st.replay_diverged += 1;
    }
    let had_match = st.ops_with_match > 0;
    stats.add(&st);
    let log_hash = hash_logs(&logs);
    Outcome {
        logs,
        log_hash,
        violations: w.violations.into_inner().unwrap(),
        choices: ch.log,
        trace_hash: w.trace.into_inner().unwrap().finish(),
        faults_fired: w.faults_fired.load(Ordering::Relaxed),
        diverged: ch.diverged,
        had_match,
    }
}

fn install_hooks_for_none() {
    exec_std::install_hooks(false);
    exec_alloc::install_hooks(false);
    exec_core::install_hooks(false);
}

#[derive(Clone, Debug, serde::Serialize, serde::Deserialize)]
pub struct FamilyOutcome {
    pub violations: Vec<(usize, Violation)>,
    pub log_hashes: Vec<u64>,
    pub choices: Vec<Vec<u32>>,
    pub signature: u64,
    pub nontrivial: bool,
    /// seam-level trace (task, site, slot, value class) of the last variant
    pub trace: u64,
    /// result log of variant 0
    pub logs0: Vec<Vec<Res>>,
}

/// Runs every variant of a family and compares their result logs.
pub fn run_family(fam: &Family, stats: &mut Stats) -> FamilyOutcome {
    let ep = Arc::new(fam.base.clone());
    let mut outs: Vec<Outcome> = Vec::new();
    for (vi, env) in fam.variants.iter().enumerate() {
        PROG_VARIANT.store(vi, Ordering::Relaxed);
        let replay = if fam.replay { Some(fam.choices.get(vi).cloned().unwrap_or_default()) } else { None };
        outs.push(execute(&ep, env, replay, stats, None));
    }
    let mut violations: Vec<(usize, Violation)> = Vec::new();
    for (vi, o) in outs.iter().enumerate() {
        for v in &o.violations {
            violations.push((vi, v.clone()));
        }
    }
    // The poison differential (C05) concludes "bytes outside the haystack
    // were read" from a difference between variants. That inference needs a
    // library whose answers are a function of the call: if the very same
    // variant, run again with the same decisions, answers differently, the
    // difference comes from state the library carried over (C15/C16 matters),
    // not from an over-read.
    let mut diff_kind = fam.diff_kind;
    if diff_kind == VKind::Trap && outs.iter().skip(1).any(|o| o.log_hash != outs[0].log_hash) {
        PROG_VARIANT.store(0, Ordering::Relaxed);
        let mut scratch = Stats::default();
        let again = execute(&ep, &fam.variants[0], Some(outs[0].choices.clone()), &mut scratch, None);
        if again.log_hash != outs[0].log_hash {
            diff_kind = VKind::History;
        }
    }
    // differential oracle across variants
    for vi in 1..outs.len() {
        if outs[vi].log_hash != outs[0].log_hash {
            // find the first differing operation
            let mut what = String::from("result logs differ");
            'find: for t in 0..outs[0].logs.len().max(outs[vi].logs.len()) {
                let a = outs[0].logs.get(t);
                let b = outs[vi].logs.get(t);
                let n = a.map_or(0, |x| x.len()).max(b.map_or(0, |x| x.len()));
                for i in 0..n {
                    let ra = a.and_then(|x| x.get(i));
                    let rb = b.and_then(|x| x.get(i));
                    if ra != rb {
                        what = format!(
                            "thread {} op {} ({}) returned {:?} under {:?} but {:?} under {:?}",
                            t,
                            i,
                            ep.threads.get(t).and_then(|p| p.get(i)).map(op_name).unwrap_or("?"),
                            rb,
                            fam.variants[vi],
                            ra,
                            fam.variants[0]
                        );
                        violations.push((
                            vi,
                            Violation { kind: diff_kind, thread: t, op: i, what: what.clone() },
                        ));
                        break 'find;
                    }
                }
            }
            let _ = what;
        }
    }
    // signature: environment(s), fault firings, op kinds per thread, seam trace
    let mut h = rng::Fnv::new();
    for (vi, env) in fam.variants.iter().enumerate() {
        h.bytes(format!("{:?}", env).as_bytes());
        h.u64(outs[vi].trace_hash);
        h.u64(outs[vi].faults_fired);
        for c in &outs[vi].choices {
            h.u64(*c as u64);
        }
    }
    for th in &ep.threads {
        h.u64(th.len() as u64);
        for op in th {
            h.bytes(op_name(op).as_bytes());
        }
    }
    for b in &ep.bufs {
        h.u64(b.bytes.len() as u64);
        h.bytes(format!("{:?}", b.place).as_bytes());
    }
    let fired: u64 = outs.iter().map(|o| o.faults_fired).sum();
    let env_fault = fam.variants.iter().any(|e| {
        e.cpu != Cpu::Host || !matches!(e.dispatch, Dispatch::Warm) || e.krate != Krate::Std || e.sched != Sched::Sequential
    });
    let placed_fault = ep.bufs.iter().any(|b| !matches!(b.place, Place::Mid(_)));
    let nontrivial = (fired > 0 || env_fault || placed_fault) && outs.iter().any(|o| o.had_match);
    FamilyOutcome {
        violations,
        log_hashes: outs.iter().map(|o| o.log_hash).collect(),
        choices: outs.iter().map(|o| o.choices.clone()).collect(),
        signature: h.finish(),
        nontrivial,
        trace: outs.last().map_or(0, |o| o.trace_hash),
        logs0: outs.first().map(|o| o.logs.clone()).unwrap_or_default(),
    }
}

pub fn op_name(op: &Op) -> &'static str {
    match op {
        Op::Byte { .. } => "Byte",
        Op::IterNew { .. } => "IterNew",
        Op::IterNext { .. } => "IterNext",
        Op::IterNextBack { .. } => "IterNextBack",
        Op::IterHint { .. } => "IterHint",
        Op::IterClone { .. } => "IterClone",
        Op::IterCount { .. } => "IterCount",
        Op::Mem { .. } => "Mem",
        Op::FinderNew { .. } => "FinderNew",
        Op::FinderFind { .. } => "FinderFind",
        Op::FinderNeedle { .. } => "FinderNeedle",
        Op::FinderRepeat { .. } => "FinderRepeat",
        Op::FinderClone { .. } => "FinderClone",
        Op::FinderOwn { .. } => "FinderOwn",
        Op::KillNeedle { .. } => "KillNeedle",
        Op::FIterNew { .. } => "FIterNew",
        Op::FIterNext { .. } => "FIterNext",
        Op::FIterHint { .. } => "FIterHint",
        Op::FIterClone { .. } => "FIterClone",
        Op::FIterOwn { .. } => "FIterOwn",
        Op::FIterForceInert { .. } => "FIterForceInert",
        Op::Drop { .. } => "Drop",
        Op::Send { .. } => "Send",
        Op::Share { .. } => "Share",
        Op::Recv { .. } => "Recv",
        Op::ArmInert { .. } => "ArmInert",
        Op::TwoWay { .. } => "TwoWay",
        Op::RabinKarp { .. } => "RabinKarp",
        Op::ShiftOr { .. } => "ShiftOr",
        Op::Packed { .. } => "Packed",
        Op::Cmp { .. } => "Cmp",
        Op::PairNew { .. } => "PairNew",
        Op::PairIdx { .. } => "PairIdx",
        Op::HugeCount { .. } => "HugeCount",
        Op::HugeFindIter { .. } => "HugeFindIter",
        Op::ByteAll { .. } => "ByteAll",
        Op::PackedAll { .. } => "PackedAll",
        Op::Lockstep { .. } => "Lockstep",
        Op::Cost { .. } => "Cost",
        Op::Refill { .. } => "Refill",
    }
}

// ---------------------------------------------------------------------------
// CLI

fn arg<'a>(args: &'a [String], name: &str) -> Option<&'a str> {
    args.iter().position(|a| a == name).and_then(|i| args.get(i + 1)).map(|s| s.as_str())
}

fn flag(args: &[String], name: &str) -> bool {
    args.iter().any(|a| a == name)
}

fn silence_panics() {
    std::panic::set_hook(Box::new(|info| {
        // panics raised inside the library under test are caught and turned
        // into results; only print the ones that are the harness' own
        let in_lib = world::with_ctx(|c| c.in_lib).unwrap_or(false);
        if !in_lib {
            eprintln!("memsim: harness panic: {}", info);
        }
    }));
}

#[derive(serde::Serialize, serde::Deserialize, Default)]
struct RunReport {
    prop: String,
    seed: u64,
    from: u64,
    to: u64,
    families: u64,
    executions: u64,
    nontrivial_signatures: u64,
    distinct_signatures: u64,
    distinct_traces: u64,
    stats: Stats,
    cost: CostStats,
    violation: Option<serde_json::Value>,
    other_property_notes: Vec<String>,
    #[serde(default)]
    model_candidates: Vec<serde_json::Value>,
    samples: Vec<serde_json::Value>,
    wall_s: f64,
    log_hashes: Vec<(u64, u64)>,
}

fn cmd_run(args: &[String]) -> i32 {
    let prop = arg(args, "--prop").expect("--prop");
    let profile = gen::Profile::parse(prop).expect("unknown profile");
    let seed: u64 = arg(args, "--seed").unwrap_or("1").parse().expect("--seed");
    let from: u64 = arg(args, "--from").unwrap_or("0").parse().unwrap();
    let to: u64 = arg(args, "--to").unwrap_or("100").parse().unwrap();
    let out = arg(args, "--out").expect("--out");
    let want_hashes = flag(args, "--hashes");
    let sig_cap: u64 = arg(args, "--sig-cap").unwrap_or("4000000").parse().unwrap();
    #[cfg(not(miri))]
    {
        use std::os::unix::io::IntoRawFd;
        let f = std::fs::OpenOptions::new()
            .create(true)
            .write(true)
            .truncate(true)
            .open(format!("{}.trap", out))
            .expect("trap file");
        TRAP_FD.store(f.into_raw_fd(), Ordering::Relaxed);
        let f = std::fs::OpenOptions::new()
            .create(true)
            .write(true)
            .truncate(true)
            .open(format!("{}.progress", out))
            .expect("progress file");
        PROGRESS_FD.store(f.into_raw_fd(), Ordering::Relaxed);
    }
    let tgt = target();
    // C09 across processes: one simulated CPU per worker process, so that
    // process-wide state (a cache a change might introduce) never sees the
    // CPU change under its feet
    let force_cpu: Option<Cpu> = match arg(args, "--force-cpu") {
        None => None,
        Some("Host") => Some(Cpu::Host),
        Some("NoAvx2") => Some(Cpu::NoAvx2),
        Some("NoSimd") => Some(Cpu::NoSimd),
        Some(x) => panic!("--force-cpu {}", x),
    };
    let start = std::time::Instant::now();
    let mut rep = RunReport { prop: prop.to_string(), seed, from, to, ..Default::default() };
    let mut sigs: std::collections::BTreeSet<u64> = std::collections::BTreeSet::new();
    let mut nontrivial_sigs: std::collections::BTreeSet<u64> = std::collections::BTreeSet::new();
    let mut traces: std::collections::BTreeSet<u64> = std::collections::BTreeSet::new();
    let mut code = 0;
    for index in from..to {
        let mut fam = gen::generate(profile, seed, index, tgt);
        if let Some(cpu) = force_cpu {
            let mut seen: Vec<String> = Vec::new();
            let mut kept = Vec::new();
            for mut v in fam.variants.drain(..) {
                v.cpu = cpu;
                let key = format!("{:?}", v);
                if !seen.contains(&key) {
                    seen.push(key);
                    kept.push(v);
                }
            }
            fam.variants = kept;
            fam.base.env = fam.variants[0].clone();
        }
        PROG_FAMILY.store(index, Ordering::Relaxed);
        if cfg!(miri) {
            // attribution of an interpreter abort to a family
            eprintln!("FAMILY {}", index);
        }
        #[cfg(not(miri))]
        unsafe {
            let fd = PROGRESS_FD.load(Ordering::Relaxed);
            if fd >= 0 {
                let b = index.to_le_bytes();
                libc::pwrite(fd, b.as_ptr() as *const libc::c_void, 8, 0);
            }
        }
        // not under the interpreter: reading the host clock costs a number of
        // interpreted steps that depends on the time read (a borrow in the
        // subtraction), and the interpreter's seeded scheduler draws once per
        // step: the same interpreter seed would give another schedule
        let t_gen = if cfg!(miri) { 0.0 } else { start.elapsed().as_secs_f64() };
        let fo = run_family(&fam, &mut rep.stats);
        if std::env::var_os("MEMSIM_TIMING").is_some() {
            eprintln!(
                "family {} gen-done@{:.2}s run-done@{:.2}s ops={} threads={} bytes={}",
                index,
                t_gen,
                start.elapsed().as_secs_f64(),
                fam.base.threads.iter().map(|t| t.len()).sum::<usize>(),
                fam.base.threads.len(),
                fam.base.bufs.iter().map(|b| b.bytes.len()).sum::<usize>()
            );
        }
        rep.families += 1;
        rep.executions += fam.variants.len() as u64;
        if (traces.len() as u64) < sig_cap {
            traces.insert(fo.trace);
        }
        if (sigs.len() as u64) < sig_cap {
            sigs.insert(fo.signature);
            if fo.nontrivial {
                nontrivial_sigs.insert(fo.signature);
            }
        }
        if want_hashes {
            rep.log_hashes.push((index, fo.log_hashes[0]));
        }
        if rep.samples.len() < 3 && fo.nontrivial && fam.base.threads.iter().map(|t| t.len()).sum::<usize>() <= 14 {
            rep.samples.push(serde_json::json!({
                "index": index,
                "variants": fam.variants,
                "threads": fam.base.threads,
                "buffer_lengths": fam.base.bufs.iter().map(|b| b.bytes.len()).collect::<Vec<_>>(),
                "choices": fo.choices,
            }));
        }
        let mine: Vec<&(usize, Violation)> = fo.violations.iter().filter(|(_, v)| owns(profile, v.kind)).collect();
        // candidates for the isolation oracle: results that disagree with the
        // naive model although no owned invariant tripped
        if mine.is_empty() && rep.model_candidates.len() < 4 && fo.violations.iter().any(|(_, v)| v.kind == VKind::Model) {
            let mut f2 = fam.clone();
            f2.replay = true;
            f2.choices = fo.choices.clone();
            rep.model_candidates.push(serde_json::json!({ "index": index, "family": f2 }));
        }
        for (_, v) in fo.violations.iter().filter(|(_, v)| !owns(profile, v.kind)) {
            if rep.other_property_notes.len() < 20 {
                rep.other_property_notes.push(format!(
                    "family {}: {:?} ({}) {}",
                    index,
                    v.kind,
                    v.kind.property(),
                    v.what
                ));
            }
        }
        if !mine.is_empty() {
            let mut f2 = fam.clone();
            f2.replay = true;
            f2.choices = fo.choices.clone();
            rep.violation = Some(serde_json::json!({
                "index": index,
                "violations": mine,
                "family": f2,
            }));
            code = 1;
            break;
        }
    }
    {
        // signatures of the non-trivial families, for an exact union across workers
        let mut v: Vec<u64> = nontrivial_sigs.iter().copied().collect();
        v.sort_unstable();
        let mut bytes = Vec::with_capacity(v.len() * 8 + 8);
        bytes.extend_from_slice(&(sigs.len() as u64).to_le_bytes());
        for x in &v {
            bytes.extend_from_slice(&x.to_le_bytes());
        }
        let _ = std::fs::write(format!("{}.sigs", out), bytes);
    }
    rep.distinct_traces = traces.len() as u64;
    rep.distinct_signatures = sigs.len() as u64;
    rep.nontrivial_signatures = nontrivial_sigs.len() as u64;
    rep.cost = COST.lock().unwrap().clone();
    rep.wall_s = start.elapsed().as_secs_f64();
    std::fs::write(out, serde_json::to_vec(&rep).unwrap()).expect("write report");
    code
}

fn cmd_replay(args: &[String]) -> i32 {
    let path = args.get(0).expect("replay <file>");
    let text = std::fs::read_to_string(path).expect("read replay file");
    let fam: Family = match serde_json::from_str(&text) {
        Ok(f) => f,
        Err(e) => {
            eprintln!("memsim: malformed replay file: {}", e);
            return 2;
        }
    };
    let profile = gen::Profile::parse(&fam.base.prop).expect("profile in replay file");
    let mut stats = Stats::default();
    PROG_FAMILY.store(fam.base.index, Ordering::Relaxed);
    let fo = run_family(&fam, &mut stats);
    let mine: Vec<&(usize, Violation)> = fo.violations.iter().filter(|(_, v)| owns(profile, v.kind)).collect();
    let all = flag(args, "--all");
    let shown: Vec<&(usize, Violation)> = if all { fo.violations.iter().collect() } else { mine.clone() };
    println!(
        "{}",
        serde_json::to_string(&serde_json::json!({
            "violations": shown,
            "logs": if flag(args, "--logs") { Some(&fo.logs0) } else { None },
            "log_hashes": fo.log_hashes,
            "choices": fo.choices,
            "diverged": stats.replay_diverged,
        }))
        .unwrap()
    );
    if mine.is_empty() {
        0
    } else {
        1
    }
}

fn cmd_gen(args: &[String]) -> i32 {
    let prop = arg(args, "--prop").expect("--prop");
    let profile = gen::Profile::parse(prop).expect("unknown profile");
    let seed: u64 = arg(args, "--seed").unwrap_or("1").parse().unwrap();
    if let (Some(from), Some(to)) = (arg(args, "--from"), arg(args, "--to")) {
        // one family per line
        let (from, to): (u64, u64) = (from.parse().unwrap(), to.parse().unwrap());
        use std::io::Write;
        let out = std::io::stdout();
        let mut out = out.lock();
        for index in from..to {
            let fam = gen::generate(profile, seed, index, target());
            writeln!(out, "{}", serde_json::to_string(&fam).unwrap()).unwrap();
        }
        return 0;
    }
    let index: u64 = arg(args, "--index").unwrap_or("0").parse().unwrap();
    let mut fam = gen::generate(profile, seed, index, target());
    if let Some(x) = arg(args, "--force-cpu") {
        let cpu = match x {
            "Host" => Cpu::Host,
            "NoAvx2" => Cpu::NoAvx2,
            _ => Cpu::NoSimd,
        };
        let mut seen: Vec<String> = Vec::new();
        let mut kept = Vec::new();
        for mut v in fam.variants.drain(..) {
            v.cpu = cpu;
            let key = format!("{:?}", v);
            if !seen.contains(&key) {
                seen.push(key);
                kept.push(v);
            }
        }
        fam.variants = kept;
        fam.base.env = fam.variants[0].clone();
    }
    if let Some(c) = arg(args, "--choices") {
        // choices of the LAST variant (the one that runs under a scheduler)
        let list: Vec<u32> = c.split(',').filter(|s| !s.is_empty()).map(|s| s.parse().unwrap()).collect();
        let vi: usize = arg(args, "--variant").map(|s| s.parse().unwrap()).unwrap_or(fam.variants.len() - 1);
        fam.replay = true;
        fam.choices = vec![Vec::new(); fam.variants.len()];
        fam.choices[vi] = list;
    }
    println!("{}", serde_json::to_string(&fam).unwrap());
    0
}

fn cmd_merge_sigs(args: &[String]) -> i32 {
    let mut all: Vec<u64> = Vec::new();
    let mut distinct_total = 0u64;
    for f in args {
        let b = match std::fs::read(f) {
            Ok(b) => b,
            Err(_) => continue,
        };
        if b.len() < 8 {
            continue;
        }
        distinct_total += u64::from_le_bytes(b[0..8].try_into().unwrap());
        for c in b[8..].chunks_exact(8) {
            all.push(u64::from_le_bytes(c.try_into().unwrap()));
        }
    }
    all.sort_unstable();
    all.dedup();
    println!("{}", serde_json::json!({ "nontrivial": all.len(), "distinct": distinct_total.max(all.len() as u64) }));
    0
}

fn cmd_info() -> i32 {
    println!(
        "{}",
        serde_json::json!({
            "arch": std::env::consts::ARCH,
            "miri": cfg!(miri),
            "shuttle": cfg!(feature = "shuttle"),
            "debug_assertions": cfg!(debug_assertions),
            "compile_avx2": cfg!(target_feature = "avx2"),
            "host_avx2": host_avx2(),
            "pointer_width": usize::BITS,
            "big_endian": cfg!(target_endian = "big"),
            "cost_k": COST_K,
            "cost_c": COST_C,
            "cost_k_nosimd": COST_K_NOSIMD,
        })
    );
    0
}

fn main() {
    let args: Vec<String> = std::env::args().skip(1).collect();
    if args.is_empty() {
        eprintln!("usage: memsim run|replay|minimise|gen|info ...");
        std::process::exit(2);
    }
    if args.iter().any(|a| a == "--no-huge") {
        NO_HUGE.store(true, Ordering::Relaxed);
    }
    if let Some(v) = arg(&args, "--long-history") {
        LONG_HISTORY_LOG2.store(v.parse().expect("--long-history"), Ordering::Relaxed);
    }
    if let Some(v) = arg(&args, "--cost-max-log2") {
        COST_MAX_LOG2.store(v.parse().expect("--cost-max-log2"), Ordering::Relaxed);
    }
    if flag(&args, "--portable") {
        PORTABLE.store(true, Ordering::Relaxed);
    }
    if flag(&args, "--also-model") {
        ALSO_MODEL.store(true, Ordering::Relaxed);
    }
    exec_std::abi_check();
    exec_alloc::abi_check();
    exec_core::abi_check();
    // shuttle installs its own (chatty) panic hook exactly once, on its first
    // execution; let it do that now and then put ours on top
    #[cfg(feature = "shuttle")]
    {
        let mut cfg = shuttle::Config::new();
        cfg.failure_persistence = shuttle::FailurePersistence::None;
        cfg.silence_warnings = true;
        shuttle::Runner::new(sched::OnceSched::new(Sched::Sequential, false), cfg).run(|| {});
    }
    silence_panics();
    trap::install();
    let code = match args[0].as_str() {
        "run" => cmd_run(&args[1..]),
        "replay" => cmd_replay(&args[1..]),
        "minimise" => minimise::cmd_minimise(&args[1..]),
        "gen" => cmd_gen(&args[1..]),
        "info" => cmd_info(),
        "merge-sigs" => cmd_merge_sigs(&args[1..]),
        other => {
            eprintln!("memsim: unknown command {}", other);
            2
        }
    };
    std::process::exit(code);
}
