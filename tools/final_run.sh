#!/bin/sh
# Runs every registered quick check on the unchanged tree, validates MANIFEST and evidence against the
# schemas, prints a summary. Exit 0 only if everything is clean.
cd "$(dirname "$0")/.."
FAIL=0
for P in C05 C06 C07 C08 C09 C10 C13 C14 C15 C16 C17; do
  START=$(date +%s)
  OUT=$(./check $P quick 2>&1); RC=$?
  END=$(date +%s)
  echo "$P exit=$RC $((END-START))s $(echo "$OUT" | tail -1 | cut -c1-160)"
  [ $RC -ne 0 ] && FAIL=1
done
python3-vt - <<'PY' || FAIL=1
import json, jsonschema, sys
m = json.load(open('MANIFEST.json'))
jsonschema.validate(m, json.load(open('/root/.vp/MANIFEST.schema.json')))
sch = json.load(open('/root/.vp/EVIDENCE.schema.json'))
for c in m['checks']:
    ev = json.load(open(c['evidence_file']))
    jsonschema.validate(ev, sch)
    assert ev['property_id'] == c['property_id'] and ev.get('violations', 0) == 0, c['property_id']
props = [json.loads(l)['id'] for l in open('properties.jsonl')]
claimed = [c['property_id'] for c in m['checks']]
na = [n['property_id'] for n in m['not_applicable']]
assert sorted(claimed + na) == sorted(props), (claimed, na)
print("manifest + %d evidence files valid; %d claimed + %d not applicable = %d properties" % (len(claimed), len(claimed), len(na), len(props)))
PY
exit $FAIL
