#!/bin/sh
# Cross matrix: every seeded change against every check (native substrate only).
# Output: one line per (seed, check).
cd "$(dirname "$0")/.."
for d in seeded/*/; do
  s=$(basename $d)
  VERIF_NO_MIRI=1 VERIF_NO_WASM=1 VERIF_SCALE=${VERIF_SCALE:-0.3} tools/try_patch.sh $d/patch.diff C05 C06 C07 C08 C09 C10 C13 C14 C15 C16 C17 2>&1 | grep '^==' | cut -c1-260 | sed "s/^/MATRIX $s /"
done
