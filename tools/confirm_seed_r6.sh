#!/bin/sh
# usage: confirm.sh C05 P   -> one CONFIRM line (suite run 3x with the change)
P=$1; X=$2; WT=/tmp/w6-$P; OUT=$WT/out/$X
export CARGO_TARGET_DIR=$WT/target CARGO_NET_OFFLINE=true
cd $WT || exit 2
git checkout -q -- . 2>/dev/null
git apply $OUT/patch.diff || { echo "CONFIRM $P/$X patch-does-not-apply"; exit 1; }
B1=ok; cargo build --offline -q 2>/dev/null || B1=FAIL
B2=ok; cargo build --offline -q --no-default-features 2>/dev/null || B2=FAIL
B3=ok; cargo build --offline -q --no-default-features --features alloc 2>/dev/null || B3=FAIL
B4=ok; RUSTFLAGS="--cfg memchr_verif" cargo build --offline -q --target-dir $WT/target/v 2>/dev/null || B4=FAIL
T=""
for i in 1 2 3 4; do R=$(cargo test --offline 2>&1 | grep -E "^test result"); T="$T$(echo "$R" | grep -c " 0 failed")/$(echo "$R" | grep -c .) "; done
run_demo() {
  if [ -f $OUT/demo/Cargo.toml ]; then
    (cd $OUT/demo && CARGO_TARGET_DIR=$WT/target/demo timeout 900 cargo run --offline -q --release >/dev/null 2>&1; echo $?)
  else
    echo "no-cargo-demo"
  fi
}
D1=$(run_demo)
git checkout -q -- .
D0=$(run_demo)
echo "CONFIRM $P/$X builds=$B1/$B2/$B3/$B4 tests(green/total x3)=[$T] demo_with=$D1 demo_without=$D0"
