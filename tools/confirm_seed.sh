#!/bin/sh
# usage: tools/confirm_seed.sh <prop> <A|B>     (works inside the agent's scratch worktree /tmp/wt-<prop>)
# Confirms independently: patch applies, crate builds in 3 feature configs (+hooks on), the existing suite
# passes with the change, the demo fails with the change and passes without. Prints one summary line.
P=$1; X=$2; WT=${WTPREFIX:-/tmp/wt}-$P; OUT=$WT/out/$X
export CARGO_TARGET_DIR=$WT/target CARGO_NET_OFFLINE=true
cd $WT || exit 2
git checkout -q -- . 2>/dev/null
git apply $OUT/patch.diff || { echo "CONFIRM $P/$X patch-does-not-apply"; exit 1; }
B1=ok; cargo build --offline -q 2>/dev/null || B1=FAIL
B2=ok; cargo build --offline -q --no-default-features 2>/dev/null || B2=FAIL
B3=ok; cargo build --offline -q --no-default-features --features alloc 2>/dev/null || B3=FAIL
B4=ok; RUSTFLAGS="--cfg memchr_verif" cargo build --offline -q --target-dir $WT/target/v 2>/dev/null || B4=FAIL
T=$(cargo test --offline 2>&1 | grep -E "^test result" | tr '\n' ' ')
run_demo() {
  if [ -f $OUT/demo/Cargo.toml ]; then
    (cd $OUT/demo && CARGO_TARGET_DIR=$WT/target/demo timeout 600 cargo run --offline -q --release >/dev/null 2>&1; echo $?)
  else
    echo "no-cargo-demo"
  fi
}
D1=$(run_demo)
git checkout -q -- .
D0=$(run_demo)
echo "CONFIRM $P/$X builds=$B1/$B2/$B3/$B4 tests=[$T] demo_with=$D1 demo_without=$D0"
