#!/usr/bin/env python3
"""Turns the output of tools/matrix.sh into seeded/MATRIX.md."""
import re
import sys

rows = {}
for line in open(sys.argv[1]):
    m = re.match(r'MATRIX (\S+) == (C\d+) exit=(\d+) ?(.*)', line)
    if not m:
        continue
    s, p, e, t = m.groups()
    rows.setdefault(s, {})[p] = (int(e), t)
props = "C05 C06 C07 C08 C09 C10 C13 C14 C15 C16 C17".split()
out = []
out.append("# Cross matrix: every seeded change against every check (native substrate, VERIF_SCALE=0.3, Miri/wasm off)\n")
out.append("`X` = the check exits 1 (VIOLATION), `.` = exits 0, `!` = harness error. The diagonal is the owner check.\n")
out.append("| seed | " + " | ".join(props) + " |")
out.append("|---|" + "---|" * len(props))
off = []
for s in sorted(rows):
    cells = []
    for p in props:
        e, t = rows[s].get(p, (9, ''))
        c = 'X' if e == 1 else ('.' if e == 0 else '!')
        if p == s[:3]:
            c = '**' + c + '**'
        cells.append(c)
        if e == 1 and p != s[:3]:
            t = re.sub(r' VIOLATION property=.*', '', t).replace('violation: ', '')
            off.append((s, p, t[:200]))
    out.append("| %s | %s |" % (s, " | ".join(cells)))
out.append("\n## Off-diagonal reports\n")
for s, p, t in off:
    out.append("* `%s` under `%s`: %s" % (s, p, t.replace('|', '/')))
print("\n".join(out))
