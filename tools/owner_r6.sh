#!/bin/sh
# usage: owner.sh <verifdir> <seed>...   seed = C05-P
V=$1; shift
cd $V
for s in "$@"; do
  P=$(echo $s | cut -c1-3); X=$(echo $s | cut -c5)
  VERIF_NO_MIRI=1 VERIF_NO_WASM=1 VERIF_SCALE=0.3 tools/try_patch.sh /tmp/w6-$P/out/$X/patch.diff $P 2>&1 | cut -c1-300 | sed "s/^/$s /"
done
