#!/bin/sh
# usage: tools/try_patch.sh <patch.diff> <prop> [<prop>...]
# Applies a patch to a scratch copy of /repo (never to /repo itself), runs the
# given checks against the copy and prints their exit codes.
# Environment: VERIF_SCALE, VERIF_NO_MIRI, TIER (default quick)
set -u
PATCH="$(readlink -f "$1")"; shift
HERE="$(cd "$(dirname "$0")/.." && pwd)"
SCRATCH="$(mktemp -d /tmp/mutant.XXXXXX)"
cp -r /repo/src /repo/Cargo.toml "$SCRATCH"/
if ! (cd "$SCRATCH" && patch -p1 -s < "$PATCH"); then
  echo "PATCH-FAILED $PATCH"; rm -rf "$SCRATCH"; exit 2
fi
for P in "$@"; do
  OUT="$(cd "$HERE" && MEMCHR_SRC="$SCRATCH" ./check "$P" "${TIER:-quick}" 2>&1)"
  RC=$?
  echo "== $P exit=$RC $(echo "$OUT" | grep -E '^(violation:|VIOLATION|HARNESS|KNOWN)' | head -3 | tr '\n' ' ')"
done
rm -rf "$SCRATCH"
# point the shadow manifests back at /repo
"$HERE/shadow/gen.sh"
