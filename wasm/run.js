// Interprets portable C09 episode families (one JSON object per line on
// stdin, as printed by `memsim gen --portable --from a --to b`) against the
// wasm32+simd128 build of the crate and prints one line per family:
//   {"index": n, "hash": "<u64 decimal>", "violations": [...]}
// The result log and its hash are built exactly as memsim does (sim/src/
// episode.rs Res::hash_into, main.rs hash_logs), so the driver can diff the
// hashes against the native run of the same seeds.
'use strict';
const fs = require('fs');
const wasmPath = process.argv[2];
const mod = new WebAssembly.Module(fs.readFileSync(wasmPath));

const M64 = (1n << 64n) - 1n;
class Fnv {
  constructor() { this.h = 0xcbf29ce484222325n; }
  u8(b) { this.h = ((this.h ^ BigInt(b & 0xff)) * 0x100000001B3n) & M64; }
  u64(x) { x = BigInt.asUintN(64, BigInt(x)); for (let i = 0n; i < 8n; i++) this.u8(Number((x >> (8n * i)) & 0xffn)); }
  bytes(bs) { this.u64(bs.length); for (const b of bs) this.u8(b); }
  finish() {
    let z = this.h;
    z = ((z ^ (z >> 30n)) * 0xBF58476D1CE4E5B9n) & M64;
    z = ((z ^ (z >> 27n)) * 0x94D049BB133111EBn) & M64;
    return z ^ (z >> 31n);
  }
}
// the simulator's PRNG (sim/src/rng.rs), needed for Ranker::Table(seed)
function splitmix64(st) {
  st.s = (st.s + 0x9E3779B97F4A7C15n) & M64;
  let z = st.s;
  z = ((z ^ (z >> 30n)) * 0xBF58476D1CE4E5B9n) & M64;
  z = ((z ^ (z >> 27n)) * 0x94D049BB133111EBn) & M64;
  return z ^ (z >> 31n);
}
function rotl(x, k) { return ((x << BigInt(k)) | (x >> BigInt(64 - k))) & M64; }
class Rng {
  constructor(seed) { const st = { s: BigInt.asUintN(64, BigInt(seed)) }; this.s = [splitmix64(st), splitmix64(st), splitmix64(st), splitmix64(st)]; }
  next() {
    const s = this.s;
    const result = (rotl((s[1] * 5n) & M64, 7) * 9n) & M64;
    const t = (s[1] << 17n) & M64;
    s[2] ^= s[0]; s[3] ^= s[1]; s[1] ^= s[2]; s[0] ^= s[3]; s[2] ^= t; s[3] = rotl(s[3], 45);
    return result;
  }
  byte() { return Number(this.next() >> 56n); }
}
// model::ranker_table
function rankerTable(r, needle) {
  if (r === 'Default') return null;
  const t = new Uint8Array(256);
  if (r === 'Identity') { for (let i = 0; i < 256; i++) t[i] = i; return t; }
  if (r === 'Reversed') { for (let i = 0; i < 256; i++) t[i] = 255 - i; return t; }
  if (r === 'NeedleCommon') { for (const b of needle) t[b] = 255; return t; }
  if (r === 'NeedleRare') { t.fill(255); for (const b of needle) t[b] = 0; return t; }
  if (typeof r === 'object' && 'Const' in r) { t.fill(r.Const); return t; }
  if (typeof r === 'object' && 'Table' in r) { const g = new Rng(BigInt(r.Table)); for (let i = 0; i < 256; i++) t[i] = g.byte(); return t; }
  throw new Error('ranker ' + JSON.stringify(r));
}

// Res encodings
const R = {
  none: () => ({ t: 'None' }), some: (x) => ({ t: 'Some', x }), count: (x) => ({ t: 'Count', x }),
  hint: (a, b) => ({ t: 'Hint', a, b }), bytes: (v) => ({ t: 'Bytes', v }), unit: () => ({ t: 'Unit' }),
  skip: () => ({ t: 'Skip' }), panic: () => ({ t: 'Panic' }),
};
function opt(v) { return v === -1n ? R.none() : R.some(v); }
function hashRes(h, r) {
  switch (r.t) {
    case 'None': h.u8(0); break;
    case 'Some': h.u8(1); h.u64(r.x); break;
    case 'Count': h.u8(2); h.u64(r.x); break;
    case 'Hint': h.u8(3); h.u64(r.a); if (r.b === null) h.u8(0); else { h.u8(1); h.u64(r.b); } break;
    case 'Bytes': h.u8(7); h.bytes(r.v); break;
    case 'Unit': h.u8(8); break;
    case 'Skip': h.u8(9); break;
    case 'Panic': h.u8(10); break;
    default: throw new Error('res ' + r.t);
  }
}
function hexToBytes(s) { const o = new Uint8Array(s.length / 2); for (let i = 0; i < o.length; i++) o[i] = parseInt(s.substr(2 * i, 2), 16); return o; }
function same(a, b) { return JSON.stringify(a, (k, v) => typeof v === 'bigint' ? v.toString() : v) === JSON.stringify(b, (k, v) => typeof v === 'bigint' ? v.toString() : v); }

function runFamily(fam) {
  const inst = new WebAssembly.Instance(mod, {});
  const ex = inst.exports;
  const bufs = fam.base.bufs.map(b => hexToBytes(b.bytes));
  // layout: every buffer interior, except one "hot" haystack that ends at the
  // very end of linear memory (an over-read there traps)
  let total = 1024; for (const b of bufs) total += b.length + 128;
  const heapBase = Number(ex.__heap_base.value);
  const need = heapBase + total + 65536;
  const pages = Math.ceil(need / 65536) - ex.memory.buffer.byteLength / 65536;
  if (pages > 0) ex.memory.grow(pages);
  const memSize = ex.memory.buffer.byteLength;
  let hot = -1, hotLen = -1;
  const usedAsHay = new Set();
  for (const th of fam.base.threads) for (const op of th) { const o = Object.values(op)[0]; if (o && typeof o === 'object' && 'hay' in o) usedAsHay.add(o.hay); }
  for (const i of usedAsHay) if (bufs[i].length > hotLen && ((i + fam.base.index) % 3 !== 0 || hotLen < 0)) { hot = i; hotLen = bufs[i].length; }
  const mem = () => new Uint8Array(ex.memory.buffer);
  const ptr = new Array(bufs.length);
  let cur = (heapBase + 63) & ~63;
  for (let i = 0; i < bufs.length; i++) {
    if (i === hot) { ptr[i] = memSize - bufs[i].length; }
    else { ptr[i] = cur + 64 + (i * 7) % 64; cur = ptr[i] + bufs[i].length + 64; }
    mem().set(bufs[i], ptr[i]);
  }
  const tablePtr = cur + 64; // 256 bytes of scratch for ranker tables
  const ctx = { tablePtr, chans: new Map() };
  const violations = [];
  const logs = [];
  for (let t = 0; t < fam.base.threads.length; t++) {
    const objs = new Map();
    ctx.tid = t;
    const log = [];
    for (let i = 0; i < fam.base.threads[t].length; i++) {
      const op = fam.base.threads[t][i];
      const kind = typeof op === 'string' ? op : Object.keys(op)[0];
      const a = typeof op === 'string' ? {} : op[kind];
      let res;
      try {
        res = exec(ex, kind, a, objs, ptr, bufs, violations, t, i, mem, ctx);
      } catch (e) {
        if (e instanceof WebAssembly.RuntimeError) {
          violations.push({ thread: t, op: i, kind, what: 'wasm trap: ' + e.message });
          res = R.panic();
          // the instance may be in a broken state: stop this family
          log.push(res);
          logs.push(log);
          return { logs, violations, aborted: true };
        }
        throw e;
      }
      log.push(res);
    }
    logs.push(log);
  }
  return { logs, violations, aborted: false };
}

const BE = { Top: 0, All: 1 };
function exec(ex, kind, a, objs, ptr, bufs, violations, t, i, mem, ctx) {
  const H = (b) => [ptr[b], bufs[b].length];
  switch (kind) {
    case 'Byte': {
      const be = BE[a.be]; if (be === undefined) return R.skip();
      const ar = Math.min(3, Math.max(1, a.arity));
      const [p, l] = H(a.hay);
      if (a.raw !== 'Slice' && be !== 0) {
        // raw-pointer forms exist for the arch-level searchers only
        if (a.f !== 'Count') {
          if (a.raw === 'RawEmpty' || a.raw === 'RawInverted') return R.none();
        } else if (ar === 1) {
          const [s0, e0] = a.raw === 'Raw' ? [p, p + l] : (a.raw === 'RawEmpty' ? [p, p] : [p + l, p]);
          const c = ex.byte_count_raw(be, a.n[0], s0, e0);
          return c === -2n ? R.skip() : R.count(c);
        }
      }
      if (a.f === 'Find') return opt(ex.byte_find(be, ar, a.n[0], a.n[1], a.n[2], p, l));
      if (a.f === 'Rfind') return opt(ex.byte_rfind(be, ar, a.n[0], a.n[1], a.n[2], p, l));
      const c = ex.byte_count(be, ar, a.n[0], a.n[1], a.n[2], p, l);
      return c === -2n ? R.skip() : R.count(c);
    }
    case 'ByteAll': {
      const ar = Math.min(3, Math.max(1, a.arity));
      const [p, l] = H(a.hay);
      let first = null;
      for (const be of [0, 1, 2]) {
        let r;
        if (a.f === 'Find') r = ex.byte_find(be, ar, a.n[0], a.n[1], a.n[2], p, l);
        else if (a.f === 'Rfind') r = ex.byte_rfind(be, ar, a.n[0], a.n[1], a.n[2], p, l);
        else r = ex.byte_count(be, ar, a.n[0], a.n[1], a.n[2], p, l);
        if (r === -2n) continue;
        const res = a.f === 'Count' ? R.count(r) : opt(r);
        if (first === null) first = res;
        else if (!same(first, res)) violations.push({ thread: t, op: i, kind, what: `byte_all ${a.f}: backend ${be} returned ${JSON.stringify(res, (k, v) => typeof v === 'bigint' ? v.toString() : v)} but top-level returned ${JSON.stringify(first, (k, v) => typeof v === 'bigint' ? v.toString() : v)}` });
      }
      return first === null ? R.skip() : first;
    }
    case 'PackedAll': {
      const [hp, hl] = H(a.hay), [np, nl] = H(a.needle);
      const portable = ex.twoway_find(hp, hl, np, nl);
      const simd = ex.packed_simd_find(hp, hl, np, nl);
      if (simd !== -2n && simd !== portable) violations.push({ thread: t, op: i, kind, what: `packed_all: simd128 packed-pair find returned ${simd} but portable Two-Way returned ${portable}` });
      return opt(portable);
    }
    case 'IterNew': {
      const be = BE[a.be]; if (be === undefined) return R.skip();
      const [p, l] = H(a.hay);
      const h = ex.iter_new(be, Math.min(3, Math.max(1, a.arity)), a.n[0], a.n[1], a.n[2], p, l);
      objs.set(a.dst, { k: 'BIter', h: Number(h) });
      return R.unit();
    }
    case 'IterNext': { const o = objs.get(a.it); if (!o || o.k !== 'BIter') return R.skip(); return opt(ex.iter_next(o.h)); }
    case 'IterNextBack': { const o = objs.get(a.it); if (!o || o.k !== 'BIter') return R.skip(); return opt(ex.iter_next_back(o.h)); }
    case 'IterHint': {
      const o = objs.get(a.it); if (!o || o.k !== 'BIter') return R.skip();
      ex.iter_hint(o.h); const hi = ex.hint_hi(); return R.hint(ex.hint_lo(), hi === -1n ? null : hi);
    }
    case 'IterClone': {
      const o = objs.get(a.it); if (!o || o.k !== 'BIter') return R.skip();
      objs.set(a.dst, { k: 'BIter', h: Number(ex.iter_clone(o.h)) }); return R.unit();
    }
    case 'IterCount': {
      const o = objs.get(a.it); if (!o) return R.skip(); if (o.k !== 'BIter') return R.skip();
      objs.delete(a.it); return R.count(ex.iter_count(o.h));
    }
    case 'Mem': {
      const [hp, hl] = H(a.hay), [np, nl] = H(a.needle);
      return opt(a.rev ? ex.mem_rfind(hp, hl, np, nl) : ex.mem_find(hp, hl, np, nl));
    }
    case 'FinderNew': {
      const [np, nl] = H(a.needle);
      let tp = 0;
      if (!a.rev) {
        const tab = rankerTable(a.cfg.ranker, bufs[a.needle]);
        if (tab) { mem().set(tab, ctx.tablePtr); tp = ctx.tablePtr; }
      }
      objs.set(a.dst, { k: a.rev ? 'Rev' : 'Fwd', h: Number(ex.finder_new(a.rev ? 1 : 0, np, nl, a.rev ? 1 : (a.cfg.prefilter ? 1 : 0), tp)), needle: a.needle });
      return R.unit();
    }
    case 'FinderFind': {
      const o = objs.get(a.f); if (!o || (o.k !== 'Fwd' && o.k !== 'Rev')) return R.skip();
      const [hp, hl] = H(a.hay); return opt(ex.finder_find(o.h, hp, hl, a.via_ref ? 1 : 0));
    }
    case 'FinderNeedle': {
      const o = objs.get(a.f); if (!o || (o.k !== 'Fwd' && o.k !== 'Rev')) return R.skip();
      const p = Number(ex.finder_needle_ptr(o.h)), l = Number(ex.finder_needle_len(o.h));
      return R.bytes(Array.from(mem().subarray(p, p + l)));
    }
    case 'HugeCount': case 'HugeFindIter': return R.skip();
    case 'FinderRepeat': {
      const o = objs.get(a.f); if (!o || o.k !== 'Fwd') return R.skip();
      const [hp, hl] = H(a.hay); return opt(ex.finder_find(o.h, hp, hl, 0));
    }
    case 'FinderClone': {
      const o = objs.get(a.f); if (!o || (o.k !== 'Fwd' && o.k !== 'Rev')) return R.skip();
      objs.set(a.dst, { k: o.k, h: Number(ex.finder_clone(o.h)), needle: o.needle }); return R.unit();
    }
    case 'FIterNew': {
      const [hp, hl] = H(a.hay);
      if (a.f === null || a.f === undefined) {
        const [np, nl] = H(a.needle);
        objs.set(a.dst, { k: 'Sub', h: Number(ex.fiter_new(-1n, a.rev ? 1 : 0, hp, hl, np, nl)) }); return R.unit();
      }
      const o = objs.get(a.f); if (!o || (o.k !== 'Fwd' && o.k !== 'Rev')) return R.skip();
      objs.set(a.dst, { k: 'Sub', h: Number(ex.fiter_new(BigInt(o.h), 0, hp, hl, 0, 0)) }); return R.unit();
    }
    case 'FIterNext': { const o = objs.get(a.it); if (!o || o.k !== 'Sub') return R.skip(); return opt(ex.fiter_next(o.h)); }
    case 'FIterHint': {
      const o = objs.get(a.it); if (!o || o.k !== 'Sub') return R.skip();
      ex.fiter_hint(o.h); const hi = ex.hint_hi(); return R.hint(ex.hint_lo(), hi === -1n ? null : hi);
    }
    case 'FIterClone': {
      const o = objs.get(a.it); if (!o || o.k !== 'Sub') return R.skip();
      objs.set(a.dst, { k: 'Sub', h: Number(ex.fiter_clone(o.h)) }); return R.unit();
    }
    case 'FIterForceInert': { const o = objs.get(a.it); return (o && o.k === 'Sub') ? R.unit() : R.skip(); }
    // owning conversions need `alloc`; memsim logs them uniformly as Unit
    case 'FIterOwn': case 'FinderOwn': case 'KillNeedle': return R.unit();
    case 'Send': case 'Share': {
      if (a.to <= ctx.tid) return R.skip();
      const o = objs.get(a.s); if (!o) return R.skip();
      if (kind === 'Share' && o.k !== 'Fwd' && o.k !== 'Rev') return R.skip();
      if (kind === 'Send') objs.delete(a.s);
      const key = ctx.tid + '>' + a.to;
      if (!ctx.chans.has(key)) ctx.chans.set(key, []);
      ctx.chans.get(key).push(o);
      return R.unit();
    }
    case 'Recv': {
      if (a.from >= ctx.tid) return R.skip();
      const q = ctx.chans.get(a.from + '>' + ctx.tid);
      if (!q || q.length === 0) return R.skip();
      objs.set(a.dst, q.shift());
      return R.unit();
    }
    case 'ArmInert': return R.unit();
    case 'Drop': { const had = objs.delete(a.s); return had ? R.unit() : R.skip(); }
    default: throw new Error('operation ' + kind + ' is not part of the portable episode vocabulary');
  }
}

function handleLine(line) {
  if (line.length === 0) return;
  // u64 values (ranker table seeds) do not survive JSON.parse: quote them first
  const fam = JSON.parse(line.replace(/"Table":(\d+)/g, '"Table":"$1"'));
  const r = runFamily(fam);
  const h = new Fnv();
  r.logs.forEach((l, t) => { h.u64(t); h.u64(l.length); for (const x of l) hashRes(h, x); });
  const nops = r.logs.reduce((s, l) => s + l.length, 0);
  const out = { index: fam.base.index, hash: h.finish().toString(), ops: nops, violations: r.violations, aborted: r.aborted };
  if (process.env.WASM_LOGS) {
    // same shape as memsim's serde encoding of Res
    out.logs = r.logs.map(l => l.map(x => {
      switch (x.t) {
        case 'None': return 'None'; case 'Unit': return 'Unit'; case 'Skip': return 'Skip';
        case 'Some': return { Some: Number(x.x) }; case 'Count': return { Count: Number(x.x) };
        case 'Hint': return { Hint: [Number(x.a), x.b === null ? null : Number(x.b)] };
        case 'Bytes': return { Bytes: Buffer.from(x.v).toString('hex') };
        case 'Panic': return { Panic: 'wasm trap' };
        default: return x.t;
      }
    }));
  }
  process.stdout.write(JSON.stringify(out) + '\n');
}

// stream stdin line by line (a thorough run pipes hundreds of MB through here)
const rl = require('readline').createInterface({ input: process.stdin, crlfDelay: Infinity });
rl.on('line', handleLine);
