//! wasm32 (+simd128) executor for the portable C09 episodes: a thin no_std
//! export layer over the memchr crate. The episode is interpreted by
//! /verif/wasm/run.js, which lays the buffers out in linear memory (the
//! current haystack always ends at the very end of memory, so an over-read
//! traps), calls these exports and builds the same result log as memsim.
#![no_std]
#![allow(static_mut_refs)]

use memchr::arch::all::memchr as fallback;
use memchr::arch::all::{packedpair as pp_all, twoway};
use memchr::arch::wasm32::simd128::{memchr as simd, packedpair as pp_simd};
use memchr::memmem;

#[panic_handler]
fn panic(_: &core::panic::PanicInfo) -> ! {
    core::arch::wasm32::unreachable()
}

const NONE: i64 = -1;
const SKIP: i64 = -2;

fn opt(x: Option<usize>) -> i64 {
    match x {
        None => NONE,
        Some(i) => i as i64,
    }
}

unsafe fn sl(ptr: *const u8, len: usize) -> &'static [u8] {
    core::slice::from_raw_parts(ptr, len)
}

// backend: 0 = top-level, 1 = arch::all, 2 = simd128
#[no_mangle]
pub unsafe extern "C" fn byte_find(be: u32, arity: u32, n1: u32, n2: u32, n3: u32, p: *const u8, len: usize) -> i64 {
    let h = sl(p, len);
    let (a, b, c) = (n1 as u8, n2 as u8, n3 as u8);
    opt(match (be, arity) {
        (0, 1) => memchr::memchr(a, h),
        (0, 2) => memchr::memchr2(a, b, h),
        (0, _) => memchr::memchr3(a, b, c, h),
        (1, 1) => fallback::One::new(a).find(h),
        (1, 2) => fallback::Two::new(a, b).find(h),
        (1, _) => fallback::Three::new(a, b, c).find(h),
        (_, 1) => match simd::One::new(a) { Some(s) => s.find(h), None => return SKIP },
        (_, 2) => match simd::Two::new(a, b) { Some(s) => s.find(h), None => return SKIP },
        (_, _) => match simd::Three::new(a, b, c) { Some(s) => s.find(h), None => return SKIP },
    })
}

#[no_mangle]
pub unsafe extern "C" fn byte_rfind(be: u32, arity: u32, n1: u32, n2: u32, n3: u32, p: *const u8, len: usize) -> i64 {
    let h = sl(p, len);
    let (a, b, c) = (n1 as u8, n2 as u8, n3 as u8);
    opt(match (be, arity) {
        (0, 1) => memchr::memrchr(a, h),
        (0, 2) => memchr::memrchr2(a, b, h),
        (0, _) => memchr::memrchr3(a, b, c, h),
        (1, 1) => fallback::One::new(a).rfind(h),
        (1, 2) => fallback::Two::new(a, b).rfind(h),
        (1, _) => fallback::Three::new(a, b, c).rfind(h),
        (_, 1) => match simd::One::new(a) { Some(s) => s.rfind(h), None => return SKIP },
        (_, 2) => match simd::Two::new(a, b) { Some(s) => s.rfind(h), None => return SKIP },
        (_, _) => match simd::Three::new(a, b, c) { Some(s) => s.rfind(h), None => return SKIP },
    })
}

#[no_mangle]
pub unsafe extern "C" fn byte_count(be: u32, arity: u32, n1: u32, n2: u32, n3: u32, p: *const u8, len: usize) -> i64 {
    let h = sl(p, len);
    let (a, b, c) = (n1 as u8, n2 as u8, n3 as u8);
    (match (be, arity) {
        (0, 1) => memchr::memchr_iter(a, h).count(),
        (0, 2) => memchr::memchr2_iter(a, b, h).count(),
        (0, _) => memchr::memchr3_iter(a, b, c, h).count(),
        (1, 1) => fallback::One::new(a).count(h),
        (2, 1) => match simd::One::new(a) { Some(s) => s.count(h), None => return SKIP },
        _ => return SKIP,
    }) as i64
}

#[no_mangle]
pub unsafe extern "C" fn byte_count_raw(be: u32, n1: u32, s: *const u8, e: *const u8) -> i64 {
    let a = n1 as u8;
    (match be {
        1 => fallback::One::new(a).count_raw(s, e),
        2 => match simd::One::new(a) { Some(x) => x.count_raw(s, e), None => return SKIP },
        _ => return SKIP,
    }) as i64
}

// ---- byte iterators: top-level (0), arch::all (1), simd128 (2)
enum It {
    Free,
    M1(memchr::Memchr<'static>),
    M2(memchr::Memchr2<'static>),
    M3(memchr::Memchr3<'static>),
    A1(fallback::OneIter<'static, 'static>),
    A2(fallback::TwoIter<'static, 'static>),
    A3(fallback::ThreeIter<'static, 'static>),
    S1(simd::OneIter<'static, 'static>),
    S2(simd::TwoIter<'static, 'static>),
    S3(simd::ThreeIter<'static, 'static>),
}
const NIT: usize = 512;
static mut ITERS: [It; NIT] = [const { It::Free }; NIT];
static mut NEXT_IT: usize = 0;
// searchers the arch-level iterators borrow from; never reused within an
// instance (the driver makes a fresh instance per episode)
static mut A1S: [Option<fallback::One>; NIT] = [None; NIT];
static mut A2S: [Option<fallback::Two>; NIT] = [None; NIT];
static mut A3S: [Option<fallback::Three>; NIT] = [None; NIT];
static mut S1S: [Option<simd::One>; NIT] = [None; NIT];
static mut S2S: [Option<simd::Two>; NIT] = [None; NIT];
static mut S3S: [Option<simd::Three>; NIT] = [None; NIT];

unsafe fn it_alloc(it: It) -> i64 {
    if NEXT_IT >= NIT {
        return SKIP;
    }
    let i = NEXT_IT;
    NEXT_IT += 1;
    ITERS[i] = it;
    i as i64
}

#[no_mangle]
pub unsafe extern "C" fn iter_new(be: u32, arity: u32, n1: u32, n2: u32, n3: u32, p: *const u8, len: usize) -> i64 {
    let h = sl(p, len);
    let (a, b, c) = (n1 as u8, n2 as u8, n3 as u8);
    if NEXT_IT >= NIT {
        return SKIP;
    }
    let k = NEXT_IT;
    let it = match (be, arity) {
        (0, 1) => It::M1(memchr::Memchr::new(a, h)),
        (0, 2) => It::M2(memchr::Memchr2::new(a, b, h)),
        (0, _) => It::M3(memchr::Memchr3::new(a, b, c, h)),
        (1, 1) => {
            A1S[k] = Some(fallback::One::new(a));
            It::A1(A1S[k].as_ref().unwrap().iter(h))
        }
        (1, 2) => {
            A2S[k] = Some(fallback::Two::new(a, b));
            It::A2(A2S[k].as_ref().unwrap().iter(h))
        }
        (1, _) => {
            A3S[k] = Some(fallback::Three::new(a, b, c));
            It::A3(A3S[k].as_ref().unwrap().iter(h))
        }
        (_, 1) => {
            S1S[k] = simd::One::new(a);
            match S1S[k].as_ref() {
                Some(s) => It::S1(s.iter(h)),
                None => return SKIP,
            }
        }
        (_, 2) => {
            S2S[k] = simd::Two::new(a, b);
            match S2S[k].as_ref() {
                Some(s) => It::S2(s.iter(h)),
                None => return SKIP,
            }
        }
        (_, _) => {
            S3S[k] = simd::Three::new(a, b, c);
            match S3S[k].as_ref() {
                Some(s) => It::S3(s.iter(h)),
                None => return SKIP,
            }
        }
    };
    it_alloc(it)
}
macro_rules! each_iter {
    ($slot:expr, $i:ident => $e:expr, $free:expr) => {
        match $slot {
            It::M1($i) => $e,
            It::M2($i) => $e,
            It::M3($i) => $e,
            It::A1($i) => $e,
            It::A2($i) => $e,
            It::A3($i) => $e,
            It::S1($i) => $e,
            It::S2($i) => $e,
            It::S3($i) => $e,
            It::Free => $free,
        }
    };
}
#[no_mangle]
pub unsafe extern "C" fn iter_next(h: usize) -> i64 {
    each_iter!(&mut ITERS[h], i => opt(i.next()), SKIP)
}
#[no_mangle]
pub unsafe extern "C" fn iter_next_back(h: usize) -> i64 {
    each_iter!(&mut ITERS[h], i => opt(i.next_back()), SKIP)
}
static mut HINT: (usize, i64) = (0, 0);
#[no_mangle]
pub unsafe extern "C" fn iter_hint(h: usize) -> i64 {
    let x = each_iter!(&ITERS[h], i => i.size_hint(), return SKIP);
    HINT = (x.0, opt(x.1));
    0
}
#[no_mangle]
pub unsafe extern "C" fn hint_lo() -> i64 {
    HINT.0 as i64
}
#[no_mangle]
pub unsafe extern "C" fn hint_hi() -> i64 {
    HINT.1
}
#[no_mangle]
pub unsafe extern "C" fn iter_clone(h: usize) -> i64 {
    let c = match &ITERS[h] {
        It::M1(i) => It::M1(i.clone()),
        It::M2(i) => It::M2(i.clone()),
        It::M3(i) => It::M3(i.clone()),
        It::A1(i) => It::A1(i.clone()),
        It::A2(i) => It::A2(i.clone()),
        It::A3(i) => It::A3(i.clone()),
        It::S1(i) => It::S1(i.clone()),
        It::S2(i) => It::S2(i.clone()),
        It::S3(i) => It::S3(i.clone()),
        It::Free => return SKIP,
    };
    it_alloc(c)
}
#[no_mangle]
pub unsafe extern "C" fn iter_count(h: usize) -> i64 {
    let it = core::mem::replace(&mut ITERS[h], It::Free);
    (each_iter!(it, i => i.count(), return SKIP)) as i64
}
#[no_mangle]
pub unsafe extern "C" fn iter_drop(h: usize) {
    ITERS[h] = It::Free;
}

// ---- substring search
#[no_mangle]
pub unsafe extern "C" fn mem_find(hp: *const u8, hl: usize, np: *const u8, nl: usize) -> i64 {
    opt(memmem::find(sl(hp, hl), sl(np, nl)))
}
#[no_mangle]
pub unsafe extern "C" fn mem_rfind(hp: *const u8, hl: usize, np: *const u8, nl: usize) -> i64 {
    opt(memmem::rfind(sl(hp, hl), sl(np, nl)))
}

enum Fd {
    Free,
    F(memmem::Finder<'static>),
    R(memmem::FinderRev<'static>),
}
const NFD: usize = 256;
static mut FINDERS: [Fd; NFD] = [const { Fd::Free }; NFD];

static mut NEXT_FD: usize = 0;
unsafe fn fd_alloc(f: Fd) -> i64 {
    // monotonic: iterators borrow finders by address, so a slot is never reused
    if NEXT_FD >= NFD {
        return SKIP;
    }
    let i = NEXT_FD;
    NEXT_FD += 1;
    FINDERS[i] = f;
    i as i64
}
struct TableRanker([u8; 256]);
impl memchr::arch::all::packedpair::HeuristicFrequencyRank for TableRanker {
    fn rank(&self, byte: u8) -> u8 {
        self.0[byte as usize]
    }
}

/// `table`: null = default ranker, else 256 bytes
#[no_mangle]
pub unsafe extern "C" fn finder_new(rev: u32, np: *const u8, nl: usize, prefilter: u32, table: *const u8) -> i64 {
    let n = sl(np, nl);
    if rev != 0 {
        return fd_alloc(Fd::R(memmem::FinderRev::new(n)));
    }
    let mut b = memmem::FinderBuilder::new();
    b.prefilter(if prefilter != 0 { memmem::Prefilter::Auto } else { memmem::Prefilter::None });
    if table.is_null() {
        fd_alloc(Fd::F(b.build_forward(n)))
    } else {
        let mut t = [0u8; 256];
        t.copy_from_slice(sl(table, 256));
        fd_alloc(Fd::F(b.build_forward_with_ranker(TableRanker(t), n)))
    }
}
#[no_mangle]
pub unsafe extern "C" fn finder_find(h: usize, hp: *const u8, hl: usize, via_ref: u32) -> i64 {
    let hay = sl(hp, hl);
    match &FINDERS[h] {
        Fd::F(f) => opt(if via_ref != 0 { f.as_ref().find(hay) } else { f.find(hay) }),
        Fd::R(f) => opt(if via_ref != 0 { f.as_ref().rfind(hay) } else { f.rfind(hay) }),
        Fd::Free => SKIP,
    }
}
#[no_mangle]
pub unsafe extern "C" fn finder_needle_ptr(h: usize) -> *const u8 {
    match &FINDERS[h] {
        Fd::F(f) => f.needle().as_ptr(),
        Fd::R(f) => f.needle().as_ptr(),
        Fd::Free => core::ptr::null(),
    }
}
#[no_mangle]
pub unsafe extern "C" fn finder_needle_len(h: usize) -> i64 {
    match &FINDERS[h] {
        Fd::F(f) => f.needle().len() as i64,
        Fd::R(f) => f.needle().len() as i64,
        Fd::Free => SKIP,
    }
}
#[no_mangle]
pub unsafe extern "C" fn finder_clone(h: usize) -> i64 {
    let c = match &FINDERS[h] {
        Fd::F(f) => Fd::F(f.clone()),
        Fd::R(f) => Fd::R(f.clone()),
        Fd::Free => return SKIP,
    };
    fd_alloc(c)
}
#[no_mangle]
pub unsafe extern "C" fn finder_drop(h: usize) {
    FINDERS[h] = Fd::Free;
}

enum Si {
    Free,
    F(memmem::FindIter<'static, 'static>),
    R(memmem::FindRevIter<'static, 'static>),
}
const NSI: usize = 256;
static mut SUBS: [Si; NSI] = [const { Si::Free }; NSI];
unsafe fn si_alloc(s: Si) -> i64 {
    for i in 0..NSI {
        if matches!(SUBS[i], Si::Free) {
            SUBS[i] = s;
            return i as i64;
        }
    }
    SKIP
}
/// finder < 0: the top-level memmem::find_iter / rfind_iter
#[no_mangle]
pub unsafe extern "C" fn fiter_new(finder: i64, rev: u32, hp: *const u8, hl: usize, np: *const u8, nl: usize) -> i64 {
    let hay = sl(hp, hl);
    if finder < 0 {
        let n = sl(np, nl);
        return si_alloc(if rev != 0 { Si::R(memmem::rfind_iter(hay, n)) } else { Si::F(memmem::find_iter(hay, n)) });
    }
    match &FINDERS[finder as usize] {
        Fd::F(f) => {
            let f: &'static memmem::Finder<'static> = &*(f as *const _);
            si_alloc(Si::F(f.find_iter(hay)))
        }
        Fd::R(f) => {
            let f: &'static memmem::FinderRev<'static> = &*(f as *const _);
            si_alloc(Si::R(f.rfind_iter(hay)))
        }
        Fd::Free => SKIP,
    }
}
#[no_mangle]
pub unsafe extern "C" fn fiter_next(h: usize) -> i64 {
    match &mut SUBS[h] {
        Si::F(i) => opt(i.next()),
        Si::R(i) => opt(i.next()),
        Si::Free => SKIP,
    }
}
#[no_mangle]
pub unsafe extern "C" fn fiter_hint(h: usize) -> i64 {
    let x = match &SUBS[h] {
        Si::F(i) => i.size_hint(),
        Si::R(i) => i.size_hint(),
        Si::Free => return SKIP,
    };
    HINT = (x.0, opt(x.1));
    0
}
#[no_mangle]
pub unsafe extern "C" fn fiter_clone(h: usize) -> i64 {
    let c = match &SUBS[h] {
        Si::F(i) => Si::F(i.clone()),
        Si::R(i) => Si::R(i.clone()),
        Si::Free => return SKIP,
    };
    si_alloc(c)
}
#[no_mangle]
pub unsafe extern "C" fn fiter_drop(h: usize) {
    SUBS[h] = Si::Free;
}

/// portable Two-Way answer (what PackedAll logs) and the simd128 packed-pair
/// answer where the haystack is long enough (-2 otherwise)
#[no_mangle]
pub unsafe extern "C" fn twoway_find(hp: *const u8, hl: usize, np: *const u8, nl: usize) -> i64 {
    let (h, n) = (sl(hp, hl), sl(np, nl));
    opt(twoway::Finder::new(n).find(h, n))
}
#[no_mangle]
pub unsafe extern "C" fn packed_simd_find(hp: *const u8, hl: usize, np: *const u8, nl: usize) -> i64 {
    let (h, n) = (sl(hp, hl), sl(np, nl));
    match pp_simd::Finder::new(n) {
        Some(f) if h.len() >= f.min_haystack_len() => opt(f.find(h, n)),
        _ => SKIP,
    }
}
#[no_mangle]
pub unsafe extern "C" fn packed_all_prefilter(hp: *const u8, hl: usize, np: *const u8, nl: usize) -> i64 {
    let (h, n) = (sl(hp, hl), sl(np, nl));
    match pp_all::Finder::new(n) {
        Some(f) => opt(f.find_prefilter(h)),
        None => SKIP,
    }
}


// libc-ish symbols the code generator may ask for
#[no_mangle]
pub unsafe extern "C" fn memcmp(a: *const u8, b: *const u8, n: usize) -> i32 {
    let mut i = 0;
    while i < n {
        let (x, y) = (*a.add(i), *b.add(i));
        if x != y {
            return x as i32 - y as i32;
        }
        i += 1;
    }
    0
}
#[no_mangle]
pub unsafe extern "C" fn bcmp(a: *const u8, b: *const u8, n: usize) -> i32 {
    memcmp(a, b, n)
}
