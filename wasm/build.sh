#!/bin/sh
# Builds core, the memchr crate (from $MEMCHR_SRC, default /repo; no cargo
# features = no_std, no alloc; WITHOUT the verification hooks: this is the
# shipped code) and the harness for wasm32-unknown-unknown +simd128. Offline.
set -e
SRC="${MEMCHR_SRC:-/repo}"
HERE="$(cd "$(dirname "$0")" && pwd)"
OUT="$HERE/../build/wasm"
RS="$(rustc +nightly --print sysroot)/lib/rustlib/src/rust"
LIB="$OUT/sysroot/lib/rustlib/wasm32-unknown-unknown/lib"
TF="-Ctarget-feature=+simd128,+bulk-memory"
mkdir -p "$LIB"
if [ ! -f "$LIB/libcore.rlib" ]; then
  rustc +nightly --edition 2024 --crate-name core --crate-type rlib -Cpanic=abort -Copt-level=2 \
    --target wasm32-unknown-unknown -Zforce-unstable-if-unmarked $TF \
    "$RS/library/core/src/lib.rs" --out-dir "$LIB" 2>/dev/null
fi
if [ ! -f "$LIB/libcompiler_builtins.rlib" ]; then
  rustc +nightly --edition 2021 --crate-name compiler_builtins --crate-type rlib -Cpanic=abort \
    --target wasm32-unknown-unknown --sysroot "$OUT/sysroot" -Zforce-unstable-if-unmarked \
    "$HERE/cb_stub.rs" --out-dir "$LIB"
fi
rustc +nightly --edition 2021 --crate-name memchr --crate-type rlib -Cpanic=abort -Copt-level=2 \
  -Cdebug-assertions=on -Coverflow-checks=on \
  --target wasm32-unknown-unknown --sysroot "$OUT/sysroot" $TF --cap-lints allow \
  "$SRC/src/lib.rs" --out-dir "$OUT"
rustc +nightly --edition 2021 --crate-name harness --crate-type cdylib -Cpanic=abort -Copt-level=2 \
  --target wasm32-unknown-unknown --sysroot "$OUT/sysroot" $TF \
  --extern memchr="$OUT/libmemchr.rlib" \
  "$HERE/harness.rs" --out-dir "$OUT"
ls -la "$OUT/harness.wasm" >/dev/null
