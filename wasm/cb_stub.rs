// Empty stand-in for the `compiler_builtins` crate: rustc insists on finding
// one when linking a no_std crate; the harness provides the few symbols
// (memcmp, memcpy, memset, ...) it needs itself or gets them from
// +bulk-memory.
#![feature(compiler_builtins, staged_api)]
#![compiler_builtins]
#![no_std]
#![unstable(feature = "x", issue = "none")]
